import RemocModel.Conn.Model
import RemocModel.Conn.WaitsInv
import RemocModel.Props.C01
set_option linter.unusedSimpArgs false

/-!
# C06 — fail-stop

What a proof about a model can carry here:

* `idle_not_torn_down` — with the peer alive and sending something at least every half of the local
  timeout (the ping rule of `send_task`: interval = the *receiver's* timeout / 2) and a one-way
  latency jitter below the other half, the receive task never sees `timeout` of silence, for
  arbitrarily long idle periods;
* `silence_times_out` — if nothing arrives for `timeout`, the receive task gives up exactly then;
* `first_fault_terminates` — the `run` loop returns the first fault it observes, never `Ok`, never
  keeps running, whatever was handled before;
* `prefix_after_fault` — whatever the cut point, what receivers obtained is a prefix of what was sent
  (C01's theorem holds for *every* schedule, in particular for every truncated one).

On the wait/link model of one endpoint (`Conn/Waits.lean`: every kind of API wait, the link it is parked
on, explicit wake-ups, the clock):

* `terminated_all_error` — in every reachable state in which the dispatcher has terminated and no
  internal label is enabled, no wait on a dispatcher-owned link is pending (the only waits that can be
  left are allocator / semaphore waits, which the dispatcher does not own, and only while no unit is
  free), and every wait that returned after termination returned what the classification table
  `okAfterTerm` allows;
* `terminated_releases_ports` — after termination the dispatcher holds no port number (the allocator exception
  above is about port numbers held by the user);
* `later_ops_error` — a wait on a dispatcher-owned link started after termination returns at its first
  poll, with a result of the table; `later_user_owned_ok` — on the allocator / semaphore it is served at
  once when a unit is free;
* `api_after_termination` — the table for the chmux API calls (each call = its sequence of waits);
* `termination_bounded` — while `run` has not returned: at most `timeout` of virtual time has passed since
  the inbound direction went silent, no time passes at all once a fault has been shown, and in both
  cases `terminate` is enabled and its result is an error (`fault_or_silence_terminates`:
  a quiescent state cannot have an unanswered fault or an expired timeout).

The links are *read off the source* (see the table in `Conn/Waits.lean`): that the real
`Weak`/`oneshot`/closed-queue objects are owned and dropped as modelled is a runtime fact.  It is covered
by the correspondence: every cut point × direction × fault kind on the real endpoints (raw ports:
`mux faultsweep`; typed channels, remote calls, mirrors, locks, lazy values: `faultup sweep`), with the
quiescence detector deciding "hangs nothing", the clock deciding "bounded", and the error class of every
call that was pending at or started after the failure compared with the tables proved here.
-/

namespace Remoc.Conn

/-- arrival gaps: consecutive arrivals are at most `I + L` apart when sends are at most `I` apart
and every latency is at most `L` -/
theorem timedOut_false (T I L : Nat) (hsum : I + L < T) :
    ∀ (s0 l0 : Nat) (ss ls : List Nat) (upto : Nat),
      gapsLe I s0 ss → ss.length = ls.length → l0 ≤ L → (∀ l ∈ ls, l ≤ L) →
      -- the observation instant is not later than `I` after the last send (the peer is alive)
      upto ≤ (ss.getLast?.getD s0) + I →
      timedOut T (s0 + l0) (arrive ss ls) upto = false := by
  intro s0 l0 ss
  induction ss generalizing s0 l0 with
  | nil =>
    intro ls upto _ hlen _ _ hup
    cases ls with
    | nil =>
      simp only [arrive, timedOut, decide_eq_false_iff_not]
      simp only [List.getLast?_nil, Option.getD_none] at hup
      omega
    | cons _ _ => simp at hlen
  | cons s rest ih =>
    intro ls upto hg hlen hl0 hls hup
    cases ls with
    | nil => simp at hlen
    | cons l ls' =>
      obtain ⟨h1, h2, h3⟩ := hg
      have hl : l ≤ L := hls l (by simp)
      simp only [arrive, timedOut]
      have : ¬ (s + l - (s0 + l0) ≥ T) := by omega
      rw [if_neg this]
      apply ih s l ls' upto h3 (by simpa using hlen) hl (fun x hx => hls x (by simp [hx]))
      cases hr : rest with
      | nil => simp [hr] at hup ⊢; exact hup
      | cons r rs =>
        have : (s :: rest).getLast? = rest.getLast? := by rw [hr]; simp
        rw [this] at hup
        rw [hr] at hup
        have hne : (r :: rs).getLast? ≠ none := by simp
        cases hgl : (r :: rs).getLast? with
        | none => exact absurd hgl hne
        | some v => simp [hgl] at hup ⊢; exact hup

/-- **An idle but healthy connection is never torn down.**  The peer sends at least every
`T / 2` (its ping interval is half of *our* timeout `T`), latencies vary by less than the other
half: however long the idle period (any number of pings), the receive task does not time out. -/
theorem idle_not_torn_down (T L : Nat) (hT : 2 ≤ T) (hL : T / 2 + L < T)
    (s0 l0 : Nat) (ss ls : List Nat) (upto : Nat)
    (hpings : gapsLe (T / 2) s0 ss) (hlen : ss.length = ls.length) (hl0 : l0 ≤ L) (hls : ∀ l ∈ ls, l ≤ L)
    (halive : upto ≤ (ss.getLast?.getD s0) + T / 2) :
    timedOut T (s0 + l0) (arrive ss ls) upto = false :=
  timedOut_false T (T / 2) L hL s0 l0 ss ls upto hpings hlen hl0 hls halive

/-- **Silence is detected.**  If nothing arrives for the timeout after the last arrival, the
receive task gives up. -/
theorem silence_times_out (T last upto : Nat) (h : upto - last ≥ T) : timedOut T last [] upto = true := by
  simp [timedOut, h]

/-- **Fail-stop of the dispatcher loop.**  If the loop is shown a fault, its result is that of the
first fault: it is not `ok` and not `running`, whatever was handled before it. -/
theorem first_fault_terminates (pre post : List Ev) (f : Ev) (hpre : ∀ e ∈ pre, e = .work) (hf : f.isFault = true) :
    runLoop (pre ++ f :: post) = runLoop [f] ∧ runLoop (pre ++ f :: post) ≠ .ok ∧
    runLoop (pre ++ f :: post) ≠ .running := by
  induction pre with
  | nil => cases f <;> simp_all [runLoop, Ev.isFault]
  | cons e es ih =>
    have he : e = .work := hpre e (by simp)
    subst he
    simp only [List.cons_append, runLoop]
    exact ih (fun x hx => hpre x (by simp [hx]))

/-! non-vacuity: pings every 500 ms for a 1000 ms timeout, latencies 0..300 ms, 6 pings -/
example : timedOut 1000 (0 + 100) (arrive [500, 1000, 1500, 2000, 2500, 3000] [0, 300, 10, 250, 0, 299]) 3400 = false := by
  decide
example : gapsLe 500 0 [500, 1000, 1500, 2000, 2500, 3000] := by simp [gapsLe]
example : timedOut 1000 100 (arrive [500] [700]) 2200 = true := by decide

/-! ## every wait ends, with the error of the table -/

/-- **Fail-stop of the API waits.**  Dispatcher terminated, nothing internal left to do: (1) whatever is
still parked is parked on the allocator or the connect-request semaphore (not owned by the dispatcher)
and lacks units there; in particular nothing is parked on credits, queues, responses, listener queues
or closed-notifiers; (2) every wait that returned after the termination returned what `okAfterTerm`
allows for its link: `SendError::ChMux`, `RecvError::ChMux`, `ConnectError::ChMux` (`Rejected` when the
remote listener had been dropped), `ListenerError::MultiplexerError`, or something that had been
queued / answered before (an item, a request, an answer, a clean end marker), or `()` for the two waits
without error channel. -/
theorem terminated_all_error (s : WState) (h : WReachable s) (ht : s.term.isSome = true) (hq : WQuiescent s) :
    (∀ w ∈ s.pending, ∃ l, s.links[w.link]? = some l ∧ l.kind.userOwned = true ∧ pollLink l w.need = none) ∧
    (∀ r ∈ s.returned, r.afterTerm = true → okAfterTerm r.kind r.res = true) := by
  obtain ⟨hn, hd, hr⟩ := winv_reachable h
  refine ⟨?_, hr⟩
  intro w hw
  obtain ⟨idx, hidx⟩ := List.mem_iff_getElem?.mp hw
  obtain ⟨l, hl, hdisj⟩ := hn w hw
  have hstep := hq (.wake idx) rfl
  have hwk : w.woken = false := by
    cases hwoken : w.woken with
    | false => rfl
    | true =>
      exfalso
      simp only [wstep, hidx, hwoken, hl] at hstep
      cases hp : pollLink l w.need <;> simp [hp] at hstep
  have hnone : pollLink l w.need = none := by
    rcases hdisj with h1 | h1
    · simp [hwk] at h1
    · exact h1
  refine ⟨l, hl, ?_, hnone⟩
  cases hu : l.kind.userOwned with
  | true => rfl
  | false =>
    exfalso
    exact pollLink_dead_ne_none w.need (hd ht l (List.mem_of_getElem? hl) hu) hu hnone

/-- Corollary: with no wait parked on the allocator or the semaphore, nothing at all is pending. -/
theorem terminated_nothing_pending (s : WState) (h : WReachable s) (ht : s.term.isSome = true) (hq : WQuiescent s)
    (hno : ∀ w ∈ s.pending, ∀ l, s.links[w.link]? = some l → l.kind.userOwned = false) : s.pending = [] := by
  cases hp : s.pending with
  | nil => rfl
  | cons w ws =>
    exfalso
    have hw : w ∈ s.pending := by simp [hp]
    obtain ⟨l, hl, hu, _⟩ := (terminated_all_error s h ht hq).1 w hw
    rw [hno w hw l hl] at hu
    cases hu

/-- **The allocator exception is not the dispatcher's doing.**  After termination the dispatcher holds no
port number any more (the keys of its port table, the queued connect requests and `Accepted` events were
dropped with it and every allocator waiter was woken): an allocator wait that is still parked at
quiescence lacks port numbers that the *user* holds (port numbers allocated and not yet used, or held by
waits that are parked in the same way). -/
theorem terminated_releases_ports (s : WState) (h : WReachable s) (ht : s.term.isSome = true) :
    ∀ l ∈ s.links, l.tableHeld = 0 := noTable_reachable h ht

theorem giveBack_pending_ids (s : WState) (o : Option Nat) : (giveBack s o).pending.map Wait.id = s.pending.map Wait.id := by
  unfold giveBack
  cases o with
  | none => rfl
  | some i =>
    simp only
    split
    · simp [wakeOn, List.map_map, Function.comp_def]
      intro a _
      split <;> rfl
    · rfl

theorem giveBack_returned (s : WState) (o : Option Nat) : (giveBack s o).returned = s.returned := by
  unfold giveBack; cases o <;> simp <;> split <;> rfl

/-- **Operations started after the termination fail at once.**  A wait on a dispatcher-owned link whose
first poll happens after `terminate` is never parked: the same step records its result, and the result is
in the classification table. -/
theorem later_ops_error (s : WState) (h : WReachable s) (ht : s.term.isSome = true) (k i need : Nat)
    (holds : Option Nat) (l : Link) (hl : s.links[i]? = some l) (hu : l.kind.userOwned = false) :
    ∃ s' r, wstep s (.start k i need holds) = some s' ∧
      s'.pending.map Wait.id = s.pending.map Wait.id ∧
      s'.returned = s.returned ++ [⟨k, l.kind, r, true, true⟩] ∧ okAfterTerm l.kind r = true := by
  obtain ⟨_, hd, _⟩ := winv_reachable h
  have ha : l.alive = false := hd ht l (List.mem_of_getElem? hl) hu
  cases hp : pollLink l need with
  | none => exact absurd hp (pollLink_dead_ne_none need ha hu)
  | some rl =>
    obtain ⟨r, l'⟩ := rl
    have hstep : wstep s (.start k i need holds) =
        some (giveBack { s with links := s.links.set i l',
                                returned := s.returned ++ [⟨k, l.kind, r, s.term.isSome, s.term.isSome⟩] } holds) := by
      simp only [wstep, hl, hp]
    refine ⟨_, r, hstep, ?_, ?_, pollLink_table hp (fun _ => ha)⟩
    · rw [giveBack_pending_ids]
    · rw [giveBack_returned]; simp [ht]

/-- On the links the dispatcher does not own (allocator, semaphore) an operation started after the
termination is served at once when units are free: it is not an error, the operation goes on to its next
wait (which is on a dispatcher-owned link, see `ApiOp.waits`). -/
theorem later_user_owned_ok (s : WState) (k i need : Nat) (holds : Option Nat) (l : Link)
    (hl : s.links[i]? = some l) (hu : l.kind.userOwned = true) (hav : need ≤ l.avail) :
    ∃ s', wstep s (.start k i need holds) = some s' ∧
      s'.returned = s.returned ++ [⟨k, l.kind, .ok, s.term.isSome, s.term.isSome⟩] := by
  have hp : pollLink l need = some (.ok, { l with avail := l.avail - need }) := by
    unfold pollLink
    cases hk : l.kind <;> simp [hk, LinkKind.userOwned] at hu ⊢ <;> exact hav
  have hstep : wstep s (.start k i need holds) =
      some (giveBack { s with links := s.links.set i { l with avail := l.avail - need },
                              returned := s.returned ++ [⟨k, l.kind, .ok, s.term.isSome, s.term.isSome⟩] } holds) := by
    simp only [wstep, hl, hp]
  exact ⟨_, hstep, by rw [giveBack_returned]⟩

def WaitRes.isErr : WaitRes → Bool
  | .err _ => true
  | _ => false

/-- **The table for the chmux API** (what lean/Driver/Fault.lean compares real results with): every call
started after the termination ends with the error of its first failing wait; the calls without error
channel (`Sender::closed`, `Receiver::close`, `Connect::sent`, `Request::reject`) resolve, and
`PortAllocator::allocate` hands out a port number as long as one is free. -/
theorem api_after_termination :
    ApiOp.afterTerm .send = .err .sendChMux ∧ ApiOp.afterTerm .chunkSend = .err .sendChMux ∧
    ApiOp.afterTerm .trySend = .err .sendChMux ∧ ApiOp.afterTerm .portConnect = .err .sendChMux ∧
    ApiOp.afterTerm .recv = .err .recvChMux ∧ ApiOp.afterTerm .recvChunk = .err .recvChMux ∧
    ApiOp.afterTerm .clientConnect = .err .connectChMux ∧ ApiOp.afterTerm .connectResponse = .err .connectChMux ∧
    ApiOp.afterTerm .clientConnect true = .err .connectRejected ∧
    ApiOp.afterTerm .accept = .err .listenerMux ∧ ApiOp.afterTerm .inspect = .err .listenerMux ∧
    ApiOp.afterTerm .reqAccept = .err .listenerMux ∧
    ApiOp.afterTerm .senderClosed = .unit ∧ ApiOp.afterTerm .recvClose = .unit ∧
    ApiOp.afterTerm .connectSent = .unit ∧ ApiOp.afterTerm .reqReject = .unit ∧
    ApiOp.afterTerm .allocate = .ok := by
  simp [ApiOp.afterTerm, ApiOp.waits, outcomeAfterTerm, pollLink, deadLink, LinkKind.userOwned]

/-- every call with an error channel fails -/
theorem api_after_termination_err (op : ApiOp) (ld : Bool)
    (hop : op ≠ .senderClosed ∧ op ≠ .recvClose ∧ op ≠ .connectSent ∧ op ≠ .reqReject ∧ op ≠ .allocate) :
    (op.afterTerm ld).isErr = true := by
  cases op <;> cases ld <;>
    simp_all [ApiOp.afterTerm, ApiOp.waits, outcomeAfterTerm, pollLink, deadLink, LinkKind.userOwned, WaitRes.isErr]

/-! ## bounded time -/

/-- **Termination is bounded.**  While `run` has not returned: (1) at most `timeout` of virtual time has
passed since the last frame, hence since the inbound direction went silent; (2) once the run loop has been
shown a fault no time passes at all; (3) in both situations `terminate` is enabled, and its result is an
error (not `Ok`, not still running). -/
theorem termination_bounded (s : WState) (h : WReachable s) (ht : s.term = none) :
    (∀ tf, s.silentSince = some tf → s.now ≤ tf + s.timeout) ∧
    (s.faulted.isSome = true → ∀ d, wstep s (.tick d) = none) ∧
    ((s.faulted.isSome = true ∨ s.now - s.lastRx ≥ s.timeout) →
      ∃ s' r, wstep s .terminate = some s' ∧ s'.term = some r ∧ r ≠ .ok ∧ r ≠ .running) := by
  obtain ⟨i1, i2, i3, i4, i5, i6, i7⟩ := clockInv_reachable h
  refine ⟨?_, ?_, ?_⟩
  · intro tf htf
    have := i2 tf htf
    have := i3 ht
    omega
  · intro hf d
    cases hfe : s.faulted with
    | none => simp [hfe] at hf
    | some e => simp [wstep, ht, hfe]
  · intro hc
    have hcause : ∃ e, cause s = some e := by
      unfold cause
      rcases hc with hf | hsil
      · cases hfe : s.faulted with
        | none => simp [hfe] at hf
        | some e => exact ⟨e, rfl⟩
      · cases hfe : s.faulted with
        | some e => exact ⟨e, rfl⟩
        | none => exact ⟨.timeout, by simp [silence_times_out s.timeout s.lastRx s.now hsil]⟩
    obtain ⟨e, he⟩ := hcause
    have hr := runLoop_work_append s.evs e i5 (cause_isFault i4 he)
    have hstep : wstep s .terminate =
        some { s with term := some (runLoop (s.evs ++ [e])), links := s.links.map killLink,
                      pending := wakeAll s.pending } := by
      simp [wstep, ht, he]
    exact ⟨_, runLoop (s.evs ++ [e]), hstep, rfl, hr.1, hr.2⟩

/-- Corollary in the "judged at quiescence" form: a reachable quiescent state in which a fault has been
shown, or in which the inbound direction has been silent for the timeout, has terminated, with an error. -/
theorem fault_or_silence_terminates (s : WState) (h : WReachable s) (hq : WQuiescent s)
    (hc : s.faulted.isSome = true ∨ ∃ tf, s.silentSince = some tf ∧ s.now ≥ tf + s.timeout) :
    ∃ r, s.term = some r ∧ r ≠ .ok ∧ r ≠ .running := by
  obtain ⟨i1, i2, i3, i4, i5, i6, i7⟩ := clockInv_reachable h
  cases ht : s.term with
  | some r => exact ⟨r, rfl, i7 r ht⟩
  | none =>
    exfalso
    have hc' : s.faulted.isSome = true ∨ s.now - s.lastRx ≥ s.timeout := by
      rcases hc with hf | ⟨tf, htf, hge⟩
      · exact Or.inl hf
      · have := i2 tf htf
        right; omega
    obtain ⟨s', _, hs', _⟩ := (termination_bounded s h ht).2.2 hc'
    rw [hq .terminate rfl] at hs'
    cases hs'

/-! non-vacuity: an endpoint with one link of every dispatcher-owned kind plus the allocator; a send waits
for credits (0), a receive and an accept wait on empty queues, a connect waits for its answer, `closed()`
is parked, an allocator wait lacks a free port; the inbound direction stalls, the timeout passes, the
dispatcher terminates, everybody is polled. -/
def exLinks : List Link :=
  [ { kind := .credits }, { kind := .portQueue }, { kind := .listenQ }, { kind := .connectResp },
    { kind := .hangup }, { kind := .evq }, { kind := .alloc, tableHeld := 1 } ]

def exInit : WState := { links := exLinks, timeout := 1000 }

def exRun : List Label :=
  [ .start 10 0 1 none, .start 11 1 1 none, .start 12 2 1 none, .start 13 3 1 none, .start 14 4 1 none,
    .start 15 5 1 none, .start 16 6 1 none, .rx, .tick 400, .rx, .stall, .tick 1000, .terminate,
    .wake 0, .wake 0, .wake 0, .wake 0, .wake 0, .wake 0, .wake 0,
    -- operations started after the termination
    .start 20 0 1 none, .start 21 1 1 none, .start 22 4 1 none ]

example : WInit exInit := by simp [WInit, exInit]

/-- the run is accepted, ends with nothing pending, the dispatcher result is `timeout` at 1000 after the
stall, and the results are those of the table (the allocator wait is served by the port number the table held) -/
example : (wrun exInit exRun).map (fun s => (s.pending.length, s.term, s.now, s.returned.map (fun r => (r.id, r.res)))) =
    some (0, some Res.timeout, 1400,
      [(10, .err .sendChMux), (11, .err .recvChMux), (12, .err .listenerMux), (13, .err .connectChMux),
       (14, .unit), (15, .err .sendChMux), (16, .ok),
       (20, .err .sendChMux), (21, .err .recvChMux), (22, .unit)]) := by
  decide

/-- the hypotheses of `terminated_all_error` are met by the end state of this run: it is reachable,
terminated and quiescent -/
example : ∃ s, wrun exInit exRun = some s ∧ WReachable s ∧ s.term.isSome = true ∧ WQuiescent s := by
  have h : ∃ s, wrun exInit exRun = some s ∧ s.pending = [] ∧ s.term.isSome = true := by
    cases hr : wrun exInit exRun with
    | none => exact absurd hr (by decide)
    | some s =>
      refine ⟨s, rfl, ?_, ?_⟩
      · have : (wrun exInit exRun).map (fun s => decide (s.pending = [])) = some true := by decide
        rw [hr] at this; simpa using this
      · have : (wrun exInit exRun).map (fun s => s.term.isSome) = some true := by decide
        rw [hr] at this; simpa using this
  obtain ⟨s, hr, hp, ht⟩ := h
  exact ⟨s, hr, wreachable_wrun (WReachable.init _ (by simp [WInit, exInit])) hr, ht,
    quiescent_of_nothing_pending hp ht⟩

/-- before `terminate`, with the timeout expired, the state is not quiescent: `terminate` is enabled -/
example : (wrun exInit (exRun.take 12)).map (fun s => (wstep s .terminate).isSome) = some true := by decide

/-- and time cannot pass beyond the deadline while the dispatcher is running -/
example : (wrun exInit (exRun.take 12)).map (fun s => (wstep s (.tick 1)).isSome) = some false := by decide

end Remoc.Conn

namespace Remoc.Link

/-- **What receivers obtained before the failure is a prefix of what was sent.**  `Reachable`
contains every truncated schedule, i.e. every point at which the transport can die: at all of them
the delivered messages are a prefix of the completed sends (and those are among the started ones). -/
theorem prefix_after_fault (c : Cfg) (st : State) (h : Reachable c st) :
    ∃ rest, st.delivered ++ rest = st.completed := delivery_exact c st h

end Remoc.Link
