import RemocModel.Conn.Model
import RemocModel.Props.C01
set_option linter.unusedSimpArgs false

/-!
# C06 — fail-stop

What a proof about a model can carry here:

* `idle_not_torn_down` — with the peer alive and sending something at least every half of the local
  timeout (the ping rule of `send_task`: interval = the *receiver's* timeout / 2) and a one-way
  latency jitter below the other half, the receive task never sees `timeout` of silence, for
  arbitrarily long idle periods;
* `silence_times_out` — if nothing arrives for `timeout`, the receive task gives up exactly then;
* `first_fault_terminates` — the `run` loop returns the first fault it observes, never `Ok`, never
  keeps running, whatever was handled before;
* `prefix_after_fault` — whatever the cut point, what receivers obtained is a prefix of what was sent
  (C01's theorem holds for *every* schedule, in particular for every truncated one).

Partial, and named: that each kind of API wait (credit waiter, port queue, connect response,
listener queue, closed-notifier, allocator waiter) is woken with an error when the dispatcher is gone
is a fact about `Weak`/`oneshot`/closed-queue links in the runtime; it is covered by the exhaustive
cut-point enumeration of the correspondence run (every item index × direction × fault kind), which
decides "hangs nothing" with the quiescence detector under a virtual clock.
-/

namespace Remoc.Conn

/-- arrival gaps: consecutive arrivals are at most `I + L` apart when sends are at most `I` apart
and every latency is at most `L` -/
theorem timedOut_false (T I L : Nat) (hsum : I + L < T) :
    ∀ (s0 l0 : Nat) (ss ls : List Nat) (upto : Nat),
      gapsLe I s0 ss → ss.length = ls.length → l0 ≤ L → (∀ l ∈ ls, l ≤ L) →
      -- the observation instant is not later than `I` after the last send (the peer is alive)
      upto ≤ (ss.getLast?.getD s0) + I →
      timedOut T (s0 + l0) (arrive ss ls) upto = false := by
  intro s0 l0 ss
  induction ss generalizing s0 l0 with
  | nil =>
    intro ls upto _ hlen _ _ hup
    cases ls with
    | nil =>
      simp only [arrive, timedOut, decide_eq_false_iff_not]
      simp only [List.getLast?_nil, Option.getD_none] at hup
      omega
    | cons _ _ => simp at hlen
  | cons s rest ih =>
    intro ls upto hg hlen hl0 hls hup
    cases ls with
    | nil => simp at hlen
    | cons l ls' =>
      obtain ⟨h1, h2, h3⟩ := hg
      have hl : l ≤ L := hls l (by simp)
      simp only [arrive, timedOut]
      have : ¬ (s + l - (s0 + l0) ≥ T) := by omega
      rw [if_neg this]
      apply ih s l ls' upto h3 (by simpa using hlen) hl (fun x hx => hls x (by simp [hx]))
      cases hr : rest with
      | nil => simp [hr] at hup ⊢; exact hup
      | cons r rs =>
        have : (s :: rest).getLast? = rest.getLast? := by rw [hr]; simp
        rw [this] at hup
        rw [hr] at hup
        have hne : (r :: rs).getLast? ≠ none := by simp
        cases hgl : (r :: rs).getLast? with
        | none => exact absurd hgl hne
        | some v => simp [hgl] at hup ⊢; exact hup

/-- **An idle but healthy connection is never torn down.**  The peer sends at least every
`T / 2` (its ping interval is half of *our* timeout `T`), latencies vary by less than the other
half: however long the idle period (any number of pings), the receive task does not time out. -/
theorem idle_not_torn_down (T L : Nat) (hT : 2 ≤ T) (hL : T / 2 + L < T)
    (s0 l0 : Nat) (ss ls : List Nat) (upto : Nat)
    (hpings : gapsLe (T / 2) s0 ss) (hlen : ss.length = ls.length) (hl0 : l0 ≤ L) (hls : ∀ l ∈ ls, l ≤ L)
    (halive : upto ≤ (ss.getLast?.getD s0) + T / 2) :
    timedOut T (s0 + l0) (arrive ss ls) upto = false :=
  timedOut_false T (T / 2) L hL s0 l0 ss ls upto hpings hlen hl0 hls halive

/-- **Silence is detected.**  If nothing arrives for the timeout after the last arrival, the
receive task gives up. -/
theorem silence_times_out (T last upto : Nat) (h : upto - last ≥ T) : timedOut T last [] upto = true := by
  simp [timedOut, h]

/-- **Fail-stop of the dispatcher loop.**  If the loop is shown a fault, its result is that of the
first fault: it is not `ok` and not `running`, whatever was handled before it. -/
theorem first_fault_terminates (pre post : List Ev) (f : Ev) (hpre : ∀ e ∈ pre, e = .work) (hf : f.isFault = true) :
    runLoop (pre ++ f :: post) = runLoop [f] ∧ runLoop (pre ++ f :: post) ≠ .ok ∧
    runLoop (pre ++ f :: post) ≠ .running := by
  induction pre with
  | nil => cases f <;> simp_all [runLoop, Ev.isFault]
  | cons e es ih =>
    have he : e = .work := hpre e (by simp)
    subst he
    simp only [List.cons_append, runLoop]
    exact ih (fun x hx => hpre x (by simp [hx]))

/-! non-vacuity: pings every 500 ms for a 1000 ms timeout, latencies 0..300 ms, 6 pings -/
example : timedOut 1000 (0 + 100) (arrive [500, 1000, 1500, 2000, 2500, 3000] [0, 300, 10, 250, 0, 299]) 3400 = false := by
  decide
example : gapsLe 500 0 [500, 1000, 1500, 2000, 2500, 3000] := by simp [gapsLe]
example : timedOut 1000 100 (arrive [500] [700]) 2200 = true := by decide

end Remoc.Conn

namespace Remoc.Link

/-- **What receivers obtained before the failure is a prefix of what was sent.**  `Reachable`
contains every truncated schedule, i.e. every point at which the transport can die: at all of them
the delivered messages are a prefix of the completed sends (and those are among the started ones). -/
theorem prefix_after_fault (c : Cfg) (st : State) (h : Reachable c st) :
    ∃ rest, st.delivered ++ rest = st.completed := delivery_exact c st h

end Remoc.Link
