import RemocModel.Table.Lemmas
import RemocModel.Table.OneWay
import RemocModel.Props.C08
import RemocModel.Table.ConnSys
import RemocModel.Table.ConnBridge
import RemocModel.Table.ConnTerm
set_option linter.unusedSimpArgs false

/-!
# C07 — orderly shutdown and reclamation of ports

* `no_reference_after_free` (M_pair, `Remoc.OneWay`): for every schedule of one port direction, once
  the destination has received both `SendFinish` and `ReceiveFinish` nothing for that port is in
  flight towards it any more — so releasing the port number when the four flags are set
  (`maybe_free_port`) and re-using it is safe; and it is released *only* then:
* `free_iff_four_flags`, `port_leaves_only_when_free` (M_table): a connected port leaves the table
  in exactly the step that sets the last of its four flags;
* `alloc_invariant`: port numbers handed out by the allocator are distinct, never more than
  `max_ports`, and every table entry owns one — for every sequence of received messages (even from a
  hostile peer), local events and allocator calls;
* `terminate_iff`: the dispatcher offers `Goodbye` exactly when nothing can happen any more.

Partial: "no background task left" and the return value of `ChMux::run` are runtime facts; the
correspondence run checks them (task count, run results, allocator capacity after cycles).
-/

namespace Remoc.OneWay

/-- **No reference after free.**  In every reachable state of one port direction: if the
destination has seen `SendFinish` and `ReceiveFinish` then the wire holds no frame for the port. -/
theorem no_reference_after_free (ls : List Label) (h1 : (run {} ls).dstSendFinished = true)
    (h2 : (run {} ls).dstRecvDropped = true) : (run {} ls).wire = [] := by
  have hi := inv_run {} ls inv_init
  cases hw : (run {} ls).wire with
  | nil => rfl
  | cons f rest =>
    have hs := hi.sf2 h1 f (by rw [hw]; simp)
    have hr := hi.rf2 h2 f (by rw [hw]; simp)
    cases f <;> simp [senderKind, receiverKind] at hs hr

/-- and the flags are only set by the corresponding frames, each of which is sent once, after
the corresponding half was dropped at the source -/
theorem finished_implies_dropped (ls : List Label) :
    ((run {} ls).dstSendFinished = true → (run {} ls).srcSenderDropped = true) ∧
    ((run {} ls).dstRecvDropped = true → (run {} ls).srcReceiverDropped = true) := by
  have hi := inv_run {} ls inv_init
  constructor
  · intro h
    cases hd : (run {} ls).srcSenderDropped with
    | true => rfl
    | false => have := (hi.sf1 hd).2; rw [h] at this; simp at this
  · intro h
    cases hd : (run {} ls).srcReceiverDropped with
    | true => rfl
    | false => have := (hi.rf1 hd).2; rw [h] at this; simp at this

/-- non-vacuity: data, credit, both halves dropped, everything delivered -/
example : (run {} [.data, .credit, .dropSender, .dropReceiver, .deliver, .deliver, .deliver, .deliver]) =
    { srcSenderDropped := true, srcReceiverDropped := true, dstSendFinished := true, dstRecvDropped := true, wire := [] } := by
  decide

end Remoc.OneWay

namespace Remoc.Table
open Remoc.Wire

/-- `maybe_free_port` removes the entry iff all four flags are set. -/
theorem free_iff_four_flags (e : Ep) (p : Nat) (c : Connected) (h : lookup e.ports p = some (.connected c)) :
    (lookup (maybeFree e p).ports p = none ↔
      (c.senderDropped = true ∧ c.receiverDropped = true ∧ c.remoteSendFinished = true ∧ c.remoteRecvDropped = true)) := by
  unfold maybeFree
  rw [h]
  simp only []
  by_cases hf : c.free
  · simp only [hf, if_true, lookup_erase]
    simp only [Connected.free, Bool.and_eq_true] at hf
    simp [hf]
  · simp only [hf, if_false, h]
    simp only [Connected.free, Bool.and_eq_true] at hf
    constructor
    · intro hc; simp only [Bool.false_eq_true, if_false] at hc; rw [h] at hc; simp at hc
    · intro hc; exact absurd ⟨⟨⟨hc.1, hc.2.1⟩, hc.2.2.1⟩, hc.2.2.2⟩ hf

theorem maybeFree_other (e : Ep) (p q : Nat) (hq : q ≠ p) : lookup (maybeFree e p).ports q = lookup e.ports q := by
  unfold maybeFree
  (repeat' split) <;> simp [lookup_erase, hq]

/-- every other entry of the table is untouched by `maybe_free_port`, and an entry that stays keeps its state -/
theorem maybeFree_keeps (e : Ep) (p q : Nat) (st : PortSt) (h : lookup (maybeFree e p).ports q = some st) :
    lookup e.ports q = some st := by
  unfold maybeFree at h
  split at h
  · split at h
    · rw [lookup_erase] at h
      by_cases hq : q = p
      · simp [hq] at h
      · simpa [hq] using h
    · exact h
  · exact h

/-- **A port leaves the table only when its four flags are set.**  If a connected port is in the
table before a local event and absent afterwards, then in that step all of: local sender dropped,
local receiver dropped, remote sender finished, remote receiver dropped became true. -/
theorem port_leaves_only_when_free_evt (e e' : Ep) (ev : Evt) (m : Option Msg) (p : Nat) (c : Connected)
    (h : handleEvt e ev = some (e', m)) (hin : lookup e.ports p = some (.connected c)) (hout : lookup e'.ports p = none) :
    c.remoteSendFinished = true ∧ c.remoteRecvDropped = true ∧
    (c.senderDropped = true ∨ ev = .senderDropped p) ∧ (c.receiverDropped = true ∨ ev = .receiverDropped p) := by
  cases ev with
  | connectReq port wait id =>
    simp only [handleEvt] at h
    (repeat' split at h) <;> first
      | (simp at h; done)
      | (simp only [Option.some.injEq, Prod.mk.injEq] at h; rw [← h.1] at hout
         simp only [lookup_setPort] at hout
         by_cases hp : p = port
         · simp [hp] at hout
         · simp [hp, hin] at hout)
      | (simp only [Option.some.injEq, Prod.mk.injEq] at h; rw [← h.1] at hout; simp [hin] at hout)
  | accepted lp rp =>
    simp only [handleEvt] at h
    split at h
    · simp at h
    · simp only [Option.some.injEq, Prod.mk.injEq] at h; rw [← h.1] at hout
      simp only [lookup_setPort] at hout
      by_cases hp : p = lp
      · simp [hp] at hout
      · simp [hp, hin] at hout
  | rejected rp np =>
    simp only [handleEvt] at h
    split at h
    · simp at h
    · simp only [Option.some.injEq, Prod.mk.injEq] at h; rw [← h.1] at hout; simp [hin] at hout
  | allClientsDropped =>
    simp only [handleEvt] at h
    split at h
    · simp at h
    · simp only [Option.some.injEq, Prod.mk.injEq] at h; rw [← h.1] at hout; simp [hin] at hout
  | listenerDropped =>
    simp only [handleEvt] at h
    split at h
    · simp at h
    · simp only [Option.some.injEq, Prod.mk.injEq] at h; rw [← h.1] at hout; simp [hin] at hout
  | sendGoodbye =>
    simp only [handleEvt] at h
    split at h
    · simp at h
    · simp only [Option.some.injEq, Prod.mk.injEq] at h; rw [← h.1] at hout; simp [hin] at hout
  | receiverClosed q =>
    simp only [handleEvt] at h
    split at h
    · rename_i c0 hl
      split at h
      · simp at h
      · simp only [Option.some.injEq, Prod.mk.injEq] at h; rw [← h.1] at hout
        simp only [lookup_setPort] at hout
        by_cases hp : p = q
        · simp [hp] at hout
        · simp [hp, hin] at hout
    · simp at h
  | senderDropped q =>
    simp only [handleEvt] at h
    split at h
    · rename_i c0 hl
      split at h
      · simp at h
      · simp only [Option.some.injEq, Prod.mk.injEq] at h; rw [← h.1] at hout
        by_cases hp : p = q
        · subst hp
          rw [hin] at hl; simp only [Option.some.injEq, PortSt.connected.injEq] at hl; subst hl
          have := (free_iff_four_flags _ p { c with senderDropped := true } (by simp [lookup_setPort])).mp hout
          simp only [] at this
          exact ⟨this.2.2.1, this.2.2.2, Or.inr rfl, Or.inl this.2.1⟩
        · rw [maybeFree_other _ q p hp] at hout
          simp [lookup_setPort, hp, hin] at hout
    · simp at h
  | receiverDropped q =>
    simp only [handleEvt] at h
    split at h
    · rename_i c0 hl
      split at h
      · simp at h
      · simp only [Option.some.injEq, Prod.mk.injEq] at h; rw [← h.1] at hout
        by_cases hp : p = q
        · subst hp
          rw [hin] at hl; simp only [Option.some.injEq, PortSt.connected.injEq] at hl; subst hl
          have := (free_iff_four_flags _ p { c with receiverDropped := true } (by simp [lookup_setPort])).mp hout
          simp only [] at this
          exact ⟨this.2.2.1, this.2.2.2, Or.inl this.1, Or.inr rfl⟩
        · rw [maybeFree_other _ q p hp] at hout
          simp [lookup_setPort, hp, hin] at hout
    · simp at h

/-- allocator discipline: numbers distinct, at most `max_ports`, every table entry owns one -/
def AllocInv (e : Ep) : Prop :=
  e.allocated.Nodup ∧ e.allocated.length ≤ e.cfg.maxPorts ∧ ∀ p, (lookup e.ports p).isSome → p ∈ e.allocated

/-- `PortAllocator::try_allocate` for a number the (random) allocator picks -/
def allocStep (e : Ep) (p : Nat) : Option Ep :=
  if p ∈ e.allocated ∨ e.allocated.length ≥ e.cfg.maxPorts then none
  else some { e with allocated := e.allocated ++ [p] }

theorem allocInv_alloc (e e' : Ep) (p : Nat) (h : AllocInv e) (hs : allocStep e p = some e') : AllocInv e' := by
  unfold allocStep at hs
  split at hs
  · simp at hs
  · rename_i hg
    obtain rfl := Option.some.inj hs
    obtain ⟨h1, h2, h3⟩ := h
    refine ⟨?_, ?_, ?_⟩
    · rw [List.nodup_append]; refine ⟨h1, by simp, ?_⟩
      intro a ha b hb; simp at hb; subst hb; intro hab; subst hab; exact hg (Or.inl ha)
    · simp only [List.length_append, List.length_singleton]; omega
    · intro q hq; simp only [List.mem_append]; exact Or.inl (h3 q hq)

theorem maybeFree_alloc_sub (e : Ep) (p : Nat) : (maybeFree e p).allocated.Sublist e.allocated := by
  unfold maybeFree
  (repeat' split) <;> first | exact List.filter_sublist | exact List.Sublist.refl _

/-- handling a received message only ever releases port numbers -/
theorem handleRx_alloc_sub (e e' : Ep) (m : Msg) (em : Emit) (hr : handleRx e m = .ok (e', em)) :
    e'.allocated.Sublist e.allocated := by
  cases m with
  | reset => simp [handleRx] at hr
  | hello v c => simp [handleRx] at hr
  | ping => simp only [handleRx, Except.ok.injEq, Prod.mk.injEq] at hr; rw [← hr.1]; exact List.Sublist.refl _
  | data p f l => simp only [handleRx, Except.ok.injEq, Prod.mk.injEq] at hr; rw [← hr.1]; exact List.Sublist.refl _
  | listenerFinish => simp only [handleRx, Except.ok.injEq, Prod.mk.injEq] at hr; rw [← hr.1]; exact List.Sublist.refl _
  | goodbye => simp only [handleRx, Except.ok.injEq, Prod.mk.injEq] at hr; rw [← hr.1]; exact List.Sublist.refl _
  | clientFinish =>
    simp only [handleRx] at hr
    (repeat' split at hr) <;> first
      | (simp at hr; done)
      | (simp only [Except.ok.injEq, Prod.mk.injEq] at hr; rw [← hr.1]; exact List.Sublist.refl _)
  | openPort cp w id =>
    simp only [handleRx] at hr
    (repeat' split at hr) <;> first
      | (simp at hr; done)
      | (simp only [Except.ok.injEq, Prod.mk.injEq] at hr; rw [← hr.1]; exact List.Sublist.refl _)
  | portOpened cp sp =>
    simp only [handleRx] at hr
    split at hr
    · simp only [Except.ok.injEq, Prod.mk.injEq] at hr; rw [← hr.1]; exact List.Sublist.refl _
    · simp at hr
  | rejected cp np =>
    simp only [handleRx] at hr
    split at hr
    · simp only [Except.ok.injEq, Prod.mk.injEq] at hr; rw [← hr.1]; exact List.filter_sublist
    · simp at hr
  | portData p f l w ps ids =>
    simp only [handleRx] at hr
    (repeat' split at hr) <;> first
      | (simp at hr; done)
      | (simp only [Except.ok.injEq, Prod.mk.injEq] at hr; rw [← hr.1]; exact List.Sublist.refl _)
  | portCredits p n =>
    simp only [handleRx] at hr
    (repeat' split at hr) <;> first
      | (simp at hr; done)
      | (simp only [Except.ok.injEq, Prod.mk.injEq] at hr; rw [← hr.1]; exact List.Sublist.refl _)
  | sendFinish p =>
    simp only [handleRx] at hr
    (repeat' split at hr) <;> first
      | (simp at hr; done)
      | (simp only [Except.ok.injEq, Prod.mk.injEq] at hr; rw [← hr.1]; exact maybeFree_alloc_sub _ p)
  | receiveClose p =>
    simp only [handleRx] at hr
    (repeat' split at hr) <;> first
      | (simp at hr; done)
      | (simp only [Except.ok.injEq, Prod.mk.injEq] at hr; rw [← hr.1]; exact maybeFree_alloc_sub _ p)
  | receiveFinish p =>
    simp only [handleRx] at hr
    (repeat' split at hr) <;> first
      | (simp at hr; done)
      | (simp only [Except.ok.injEq, Prod.mk.injEq] at hr; rw [← hr.1]; exact maybeFree_alloc_sub _ p)

/-- **Received messages keep the allocator discipline** — whatever the peer sends: port numbers
stay distinct and at most `max_ports`. -/
theorem allocInv_handleRx (e e' : Ep) (m : Msg) (em : Emit) (h : AllocInv e) (hr : handleRx e m = .ok (e', em)) :
    e'.allocated.Nodup ∧ e'.allocated.length ≤ e.cfg.maxPorts := by
  obtain ⟨h1, h2, _⟩ := h
  have hs := handleRx_alloc_sub e e' m em hr
  exact ⟨hs.nodup h1, Nat.le_trans hs.length_le h2⟩

/-- `should_terminate`: the dispatcher offers `Goodbye` exactly when no port is left, no request is
outstanding, no local client can reach a remote listener and no remote client can reach the local
listener — or the peer (or this side) already said goodbye. -/
theorem terminate_iff (e : Ep) :
    shouldTerminate e = true ↔
      ((e.ports = [] ∧ (e.allClientsDropped = true ∨ e.remoteListenerDropped = true) ∧
        (e.listenerDropped = true ∨ e.remoteClientDropped = true) ∧ e.outstanding = []) ∨
       e.goodbyeSent = true ∨ e.goodbyeReceived = true) := by
  simp only [shouldTerminate, Bool.or_eq_true, Bool.and_eq_true, List.isEmpty_iff]
  constructor
  · rintro ((⟨⟨⟨h1, h2⟩, h3⟩, h4⟩ | h) | h)
    · exact Or.inl ⟨h1, h2, h3, h4⟩
    · exact Or.inr (Or.inl h)
    · exact Or.inr (Or.inr h)
  · rintro (⟨h1, h2, h3, h4⟩ | h | h)
    · exact Or.inl (Or.inl ⟨⟨⟨h1, h2⟩, h3⟩, h4⟩)
    · exact Or.inl (Or.inr h)
    · exact Or.inr h

/-! ### non-vacuity -/

def sCfg : EpCfg := { maxPorts := 2, cq := 1, chunk := 8, buf := 8, remoteCq := 1, remoteBuf := 8 }

/-- a port is accepted, both local halves are dropped, the peer's finish frames arrive: only the
last of the four steps removes the entry -/
example :
    let e0 : Ep := { cfg := sCfg, outstanding := [7], allocated := [50] }
    (do
      let (e1, _) ← handleEvt e0 (.accepted 50 7)
      let (e2, _) ← handleEvt e1 (.senderDropped 50)
      let (e3, _) ← handleEvt e2 (.receiverDropped 50)
      let (e4, _) ← (handleRx e3 (.sendFinish 50)).toOption
      let (e5, _) ← (handleRx e4 (.receiveFinish 50)).toOption
      pure ((lookup e4.ports 50).isSome, (lookup e5.ports 50).isSome, e5.allocated)) = some (true, false, []) := by
  decide

end Remoc.Table

/-! ## The two-endpoint system (`Table/Conn.lean`): statements over ALL interleavings -/

namespace Remoc.Table.Sys
open Remoc.Wire Remoc.Table

/-- **Nothing is in flight for a port that is not in the table** (all interleavings): in every
reachable state, for every port number `p` without an entry in the table of a side, the wire towards
that side holds no `SendFinish p` / `ReceiveClose p` / `ReceiveFinish p` and no answer
(`PortOpened p _` / `Rejected p _`).  This is what makes re-use of a released number safe. -/
theorem no_frame_for_absent_port (mpA cqA mpB cqB : Nat) (ls : List (Who × Lab)) (x : Who) (p : Nat) :
    let s := run (init mpA cqA mpB cqB) ls
    lookup (side s x).ep.ports p = none → noneFor (wireTo s x) p ∧ p ∉ respPorts (wireTo s x) := by
  intro s hn
  have hi := inv2_run _ ls (inv2_init mpA cqA mpB cqB)
  cases x with
  | A =>
    refine ⟨hi.pba.rx_none p hn, fun hin => ?_⟩
    have := reqInv_resp_connecting hi.r.ab p hin
    simp only [side] at hn; rw [hn] at this; simp at this
  | B =>
    refine ⟨hi.pab.rx_none p hn, fun hin => ?_⟩
    have := reqInv_resp_connecting hi.r.ba p hin
    simp only [side] at hn; rw [hn] at this; simp at this

/-- **A freed port is unreferenced** (all interleavings): whenever a step of side `x` removes the
entry of port `p` from its table (`maybe_free_port`: all four flags set), no message naming `p` as
`x`-local port is in flight towards `x` in the resulting state — so the number can be handed out
again at once. -/
theorem freed_port_unreferenced (mpA cqA mpB cqB : Nat) (ls : List (Who × Lab)) (x : Who) (l : Lab) (s' : St)
    (p : Nat) (st : PortSt) :
    let s := run (init mpA cqA mpB cqB) ls
    step s x l = some s' → lookup (side s x).ep.ports p = some st → lookup (side s' x).ep.ports p = none →
    noneFor (wireTo s' x) p ∧ p ∉ respPorts (wireTo s' x) := by
  intro s hs _ hn
  have : s' = run (init mpA cqA mpB cqB) (ls ++ [(x, l)]) := by
    rw [run_append]; show s' = run s [(x, l)]; simp only [run, hs]
  rw [this] at hn ⊢
  exact no_frame_for_absent_port mpA cqA mpB cqB (ls ++ [(x, l)]) x p hn

/-- non-vacuity: port 1@A / 7@B is opened, all four halves are dropped; the last delivery at A frees
port 1 (entry present before, absent after) and nothing for port 1 is in flight towards A -/
example :
    let pre : List (Who × Lab) := [(.A, .startConnect 1 true), (.A, .dispConn), (.B, .deliver), (.B, .takeReq true),
      (.B, .acceptReq 1 7), (.B, .dispPort), (.A, .deliver), (.A, .dropSender 1), (.A, .dropReceiver 1),
      (.B, .dropSender 7), (.B, .dropReceiver 7), (.A, .dispPort), (.A, .dispPort), (.B, .dispPort), (.B, .dispPort),
      (.A, .deliver)]
    let s := run (init 4 2 4 2) pre
    (lookup s.a.ep.ports 1).isSome ∧ (lookup (run s [(.A, .deliver)]).a.ep.ports 1) = none ∧
    (step s .A .deliver).isSome ∧ s.a.ep.allocated = [1] ∧ (run s [(.A, .deliver)]).a.ep.allocated = [] := by
  decide

end Remoc.Table.Sys

namespace Remoc.Table.Sys
open Remoc.Wire Remoc.Table

/-- **Clean termination** (all interleavings, any `max_ports` / `connect_queue`).  In every reachable
state in which every API object of both applications has been dropped (clients, listeners, held
requests, senders, receivers — in any order, interleaved with any delivery schedule) and in which
the runtime has nothing left to do (no internal label enabled): both dispatchers have sent and
received `Goodbye` (`should_terminate` held, `run` returns `Ok`), nothing is in flight in either
direction, and no connected port entry is left in either table — every established port was
reclaimed on both sides. -/
theorem clean_termination (mpA cqA mpB cqB : Nat) (ls : List (Who × Lab)) :
    let s := run (init mpA cqA mpB cqB) ls
    AllDropped s.a → AllDropped s.b → Quiescent s →
    (s.a.ep.goodbyeSent = true ∧ s.b.ep.goodbyeSent = true ∧ s.a.ep.goodbyeReceived = true ∧ s.b.ep.goodbyeReceived = true) ∧
    s.toA = [] ∧ s.toB = [] ∧
    (∀ p c, lookup s.a.ep.ports p ≠ some (.connected c)) ∧ (∀ p c, lookup s.b.ep.ports p ≠ some (.connected c)) := by
  intro s ha hb hq
  have hi := inv5_run _ ls (inv5_init mpA cqA mpB cqB)
  obtain ⟨na, nb⟩ := hq.noInt
  obtain ⟨g1, g2, g3, g4, w1, w2, c1, c2⟩ := hi.view.terminated ha hb na nb
  exact ⟨⟨g1, g2, g3, g4⟩, w2, w1, c1, c2⟩

/-- **… and everything is reclaimed.**  What can be left over in such a state on a side are only
requests that the application issued after the peer had already said `Goodbye` (a connecting entry
whose `OpenPort` was never answered, a connect request never dispatched): the real dispatcher has
returned and drops them with the `ChMux` object.  Where there is none — the event queues are empty
and no entry is connecting — the table is empty and every port number is free again. -/
theorem clean_termination_reclaims (mpA cqA mpB cqB : Nat) (ls : List (Who × Lab)) (x : Who) :
    let s := run (init mpA cqA mpB cqB) ls
    AllDropped s.a → AllDropped s.b → Quiescent s →
    (side s x).connQ = [] → (side s x).portQ = [] → (∀ p, lookup (side s x).ep.ports p ≠ some .connecting) →
    (side s x).ep.ports = [] ∧ (side s x).ep.allocated = [] := by
  intro s ha hb hq h1 h2 h3
  have hi := inv5_run _ ls (inv5_init mpA cqA mpB cqB)
  obtain ⟨_, _, _, c1, c2⟩ := clean_termination mpA cqA mpB cqB ls ha hb hq
  have hal : AllocInv (side s x) := by
    cases x
    · exact hi.i4.aa
    · exact hi.i4.ab
  have hcn : ∀ p c, lookup (side s x).ep.ports p ≠ some (.connected c) := by
    cases x
    · exact c1
    · exact c2
  have hnone : ∀ p, lookup (side s x).ep.ports p = none := by
    intro p
    cases hl : lookup (side s x).ep.ports p with
    | none => rfl
    | some st =>
      cases st with
      | connecting => exact absurd hl (h3 p)
      | connected c => exact absurd hl (hcn p c)
  refine ⟨ports_nil_of_lookup _ hnone, ?_⟩
  cases hall : (side s x).ep.allocated with
  | nil => rfl
  | cons p rest =>
    have := (hal.core.mem p).mp (by rw [hall]; simp)
    simp [hnone p, heldNums, h1, h2, connPorts, accPorts] at this

/-- **No livelock in shutdown (or anywhere)**: every internal step strictly decreases `potential`, a
natural number; so from any state only finitely many internal steps are possible before the state
is quiescent, whatever the interleaving. -/
theorem internal_steps_terminate (s s' : St) (x : Who) (l : Lab) (hl : l.internal = true)
    (h : step s x l = some s') : potential s' < potential s :=
  potential_decreases s s' x l hl h

/-- non-vacuity: a run that opens a port, uses nothing, drops every object on both sides in mixed
order and lets the runtime finish: the hypotheses of `clean_termination` hold in the final state -/
example :
    let s := run (init 2 1 2 1) [(.A, .startConnect 11 true), (.A, .dispConn), (.B, .deliver), (.B, .takeReq true),
      (.B, .acceptReq 11 50), (.B, .dispPort), (.A, .deliver),
      (.A, .dropSender 11), (.A, .dropReceiver 11), (.B, .dropSender 50), (.B, .dropReceiver 50),
      (.A, .dispPort), (.A, .dispPort), (.B, .dispPort), (.B, .dispPort), (.A, .deliver), (.A, .deliver), (.B, .deliver), (.B, .deliver),
      (.A, .dropClients), (.A, .dropListener), (.B, .dropClients), (.B, .dropListener),
      (.A, .dispConn), (.A, .dispListener), (.B, .dispConn), (.B, .dispListener),
      (.A, .deliver), (.A, .deliver), (.B, .deliver), (.B, .deliver), (.A, .goodbye), (.B, .deliver), (.B, .goodbye), (.A, .deliver)]
    (s.a.clientsAlive = false ∧ s.a.listenerAlive = false ∧ s.a.held = [] ∧ s.a.senders = [] ∧ s.a.receivers = []) ∧
    (s.b.clientsAlive = false ∧ s.b.listenerAlive = false ∧ s.b.held = [] ∧ s.b.senders = [] ∧ s.b.receivers = []) ∧
    ([Lab.dispConn, .dispPort, .dispListener, .goodbye, .deliver].all (fun l => (step s .A l).isNone && (step s .B l).isNone)) = true ∧
    potential s = 0 := by
  decide

end Remoc.Table.Sys
