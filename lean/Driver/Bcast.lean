import RemocModel.Bcast.Model
import Driver.Util
/-
Driver for the C16 correspondence: reads the traces of `harness/src/bin/bcast.rs` (real
`remoc::rch::broadcast`, local and remote subscribers) and, per case,

 (i)  replays the case on M_bcast for the *local* subscribers (their queues are exactly the model's):
      the result of every `try_recv`/`recv` (value, Lagged, empty/pending, Closed), the result of
      every `send` (Ok/Closed, number of subscribers that took the value) and `receiver_count()`
      must be what `Remoc.Bcast.step` gives, with the parking tasks run to quiescence exactly at
      the `settle` points;
 (ii) evaluates the property predicate on what every subscriber (local or remote) really received,
      with the model's own scanner `Remoc.Bcast.scan`: values consecutive, exactly one `Lagged` per
      gap and a real gap after every `Lagged`, only values broadcast after the subscription, no
      `Lagged` for a subscriber whose backlog never reached its buffer size, `Closed` only after the
      sender is gone and nothing after it, and at the final quiescent drain either everything up
      to the last broadcast was received or the sequence ends with the `Lagged` announcing the loss.

Output: `DIFF <case> <line> <what>`, `FAIL <case> <line> <what>`,
        `END <case> events=<n> replay=<ok|mismatch> pred=<ok|fail> lags=<n> values=<n> subs=<n> mixed=<0|1>`.
-/
open Driver
open Remoc.Bcast

structure SubMon where
  kind : Char := 'L'
  cap : Nat := 1
  start : Nat := 0
  modelIdx : Option Nat := none       -- index in the model state (local subscribers only)
  sc : Option (Nat × Bool) := none    -- scanner state over what was really received
  alive : Bool := true
  sawClosed : Bool := false
  mayLag : Bool := false              -- some send happened while its backlog was ≥ cap
  drained : Bool := false             -- last observation was pending/closed
  lags : Nat := 0
  vals : Nat := 0
  deriving Inhabited

structure Sim where
  name : String := ""
  active : Bool := false
  mixed : Bool := false
  events : Nat := 0
  st : State := init
  n : Nat := 0                        -- number of `send` calls seen
  senderAlive : Bool := true
  subs : Array SubMon := #[]
  diffs : Nat := 0
  fails : Nat := 0
  total : Nat := 0
  totalDiff : Nat := 0
  totalFail : Nat := 0

inductive Obs where
  | value (i : Nat) | lag | empty | pending | closed | err
  deriving DecidableEq, Repr

def parseObs (s : String) : Option Obs :=
  if s == "lag" then some .lag
  else if s == "empty" then some .empty
  else if s == "pending" then some .pending
  else if s == "closed" then some .closed
  else if s == "err" then some .err
  else if s.startsWith "v" then (s.drop 1).toNat?.map .value
  else none

def showObs : Obs → String
  | .value i => s!"v{i}" | .lag => "lag" | .empty => "empty" | .pending => "pending" | .closed => "closed" | .err => "err"

/-- run the spawned tasks of the model to quiescence (per subscriber: marker, permit, close helper) -/
def settleModel (s : State) : State := Id.run do
  let mut st := s
  for j in [0:s.subs.length] do
    for l in [Label.parkSendLag j, Label.parkGotPermit j, Label.finishClose j] do
      match step st l with
      | some st' => st := st'
      | none => pure ()
  return st

/-- what the model says a receive on local subscriber `j` returns now (`blocking` = `recv` at quiescence) -/
def modelObs (s : State) (j : Nat) (blocking : Bool) : Obs :=
  match s.subs[j]? with
  | none => .err
  | some sb =>
    match sb.queue with
    | .value i :: _ => .value i
    | .lagged :: _ => .lag
    | [] => if sb.chClosed then .closed else if blocking then .pending else .empty

def diff (sim : Sim) (line : Nat) (what : String) : IO Sim := do
  IO.println s!"DIFF {sim.name} line={line} {what}"
  return { sim with diffs := sim.diffs + 1 }

def fail (sim : Sim) (line : Nat) (what : String) : IO Sim := do
  IO.println s!"FAIL {sim.name} line={line} {what}"
  return { sim with fails := sim.fails + 1 }

/-- predicate side of one observation of subscriber `id` -/
def observe (sim : Sim) (line : Nat) (id : Nat) (o : Obs) : IO Sim := do
  match sim.subs[id]? with
  | none => fail sim line s!"observation for unknown subscriber {id}"
  | some m =>
    let setM (sim : Sim) (m : SubMon) : Sim := { sim with subs := sim.subs.set! id m }
    match o with
    | .value i =>
      let m' := { m with vals := m.vals + 1, drained := false }
      if m.sawClosed then
        fail (setM sim m') line s!"sub {id} kind={m.kind}: value after Closed"
      else if i ≥ sim.n then
        fail (setM sim m') line s!"sub {id} kind={m.kind}: received a value that was never broadcast"
      else
        match m.sc with
        | none => return setM sim m'     -- already failed earlier; do not repeat
        | some (e, lp) =>
          match scan (e, lp) [.value i] with
          | some st' => return setM sim { m' with sc := some st' }
          | none =>
            let why :=
              if lp then "value after Lagged does not skip anything (marker without gap or older value)"
              else if i < e then "value out of order or duplicated (older than expected)"
              else "gap without Lagged (values skipped silently)"
            fail (setM sim { m' with sc := none }) line s!"sub {id} kind={m.kind} cap={m.cap}: {why}: got v{i}, expected index {e}, afterLag={lp}"
    | .lag =>
      let m' := { m with lags := m.lags + 1, drained := false }
      if m.sawClosed then
        fail (setM sim m') line s!"sub {id} kind={m.kind}: Lagged after Closed"
      else
        let sim1 ← (if !m.mayLag then
            fail sim line s!"sub {id} kind={m.kind} cap={m.cap}: Lagged although its backlog never reached its buffer size"
          else pure sim)
        match m.sc with
        | none => return setM sim1 m'
        | some (e, lp) =>
          match scan (e, lp) [.lagged] with
          | some st' => return setM sim1 { m' with sc := some st' }
          | none => fail (setM sim1 { m' with sc := none }) line s!"sub {id} kind={m.kind} cap={m.cap}: two Lagged in a row"
    | .closed =>
      let m' := { m with sawClosed := true, drained := true }
      if sim.senderAlive then
        fail (setM sim m') line s!"sub {id} kind={m.kind}: Closed while a sender exists"
      else return setM sim m'
    | .pending => return setM sim { m with drained := true }
    | .empty => return setM sim m
    | .err => fail (setM sim m) line s!"sub {id} kind={m.kind}: receive error"

/-- replay side of one observation of a local subscriber -/
def replayObs (sim : Sim) (line : Nat) (id : Nat) (o : Obs) (blocking : Bool) : IO Sim := do
  match sim.subs[id]? with
  | none => return sim
  | some m =>
    match m.modelIdx with
    | none => return sim
    | some j =>
      let st := if blocking then settleModel sim.st else sim.st
      let exp := modelObs st j blocking
      let sim := { sim with st := st }
      let sim ← (if exp != o then
          diff sim line s!"sub {id} kind={m.kind} cap={m.cap}: real {showObs o}, model {showObs exp}"
        else pure sim)
      match step sim.st (.consume j) with
      | some st' => return { sim with st := st' }
      | none => return sim

def finishCase (sim : Sim) (line : Nat) : IO Sim := do
  let mut sim := sim
  let mut lags := 0
  let mut vals := 0
  for id in [0:sim.subs.size] do
    let m := sim.subs[id]!
    lags := lags + m.lags
    vals := vals + m.vals
    if m.alive then
      if !m.drained then
        sim ← fail sim line s!"sub {id} kind={m.kind}: not drained at the end of the case (harness problem)"
      else
        match m.sc with
        | none => pure ()
        | some (e, lp) =>
          if !((lp == false && e == sim.n) || (lp == true && e < sim.n)) then
            sim ← fail sim line s!"sub {id} kind={m.kind} cap={m.cap}: at final quiescence values are missing without a trailing Lagged (next expected index {e}, broadcasts {sim.n}, afterLag={lp})"
  let replay := if sim.diffs == 0 then "ok" else "mismatch"
  let pred := if sim.fails == 0 then "ok" else "fail"
  IO.println s!"END {sim.name} events={sim.events} replay={replay} pred={pred} lags={lags} values={vals} subs={sim.subs.size} mixed={showBool sim.mixed}"
  return { sim with active := false, total := sim.total + 1,
                    totalDiff := sim.totalDiff + (if sim.diffs == 0 then 0 else 1),
                    totalFail := sim.totalFail + (if sim.fails == 0 then 0 else 1) }

def stepLine (sim : Sim) (line : Nat) (raw : String) : IO Sim := do
  let l := raw.trimAscii.toString
  if l.isEmpty || l.startsWith "#" then return sim
  let (lhs, rhs) := match l.splitOn " -> " with
    | [a, b] => (words a, words b)
    | _ => (words l, [])
  match lhs with
  | "case" :: name :: mode :: _ =>
    let sim ← (if sim.active then finishCase sim line else pure sim)
    return { sim with name := name, active := true, mixed := mode == "mixed", events := 0, st := init, n := 0,
                      senderAlive := true, subs := #[], diffs := 0, fails := 0 }
  | _ =>
  if !sim.active then return sim
  let sim := { sim with events := sim.events + 1 }
  match lhs with
  | ["sub", id, cap, kind] =>
    match id.toNat?, cap.toNat? with
    | some id, some cap =>
      let k := kind.toList.headD 'L'
      if id != sim.subs.size then diff sim line s!"subscriber ids out of sequence"
      else if k == 'L' || k == 'S' then
        match step sim.st (.subscribe cap) with
        | some st' =>
          let j := sim.st.subs.length
          return { sim with st := st', subs := sim.subs.push { kind := k, cap := cap, start := sim.n, modelIdx := some j, sc := some (sim.n, false) } }
        | none => diff { sim with subs := sim.subs.push { kind := k, cap := cap, start := sim.n, sc := some (sim.n, false) } } line "model does not allow subscribe here"
      else
        return { sim with subs := sim.subs.push { kind := k, cap := cap, start := sim.n, sc := some (sim.n, false) } }
    | _, _ => diff sim line "unparsable sub"
  | ["send"] =>
    match rhs with
    | idx :: res :: rest =>
      let k := (rest.head?.bind (·.toNat?)).getD 0
      let sim ← (if idx.toNat? != some sim.n then diff sim line s!"broadcast index {idx}, expected {sim.n}" else pure sim)
      -- backlog bookkeeping for the keeps-up predicate (before the value is added)
      let subs := sim.subs.map (fun m =>
        match m.sc with
        | some (e, false) => if m.alive && sim.n - e ≥ m.cap then { m with mayLag := true } else m
        | _ => { m with mayLag := true })
      let sim := { sim with subs := subs }
      match step sim.st .send with
      | none => 
        let sim := { sim with n := sim.n + 1 }
        diff sim line "send after the model's sender was dropped"
      | some st' =>
        let took := (List.zip sim.st.subs st'.subs).countP (fun (a, b) => b.queue.length > a.queue.length)
        let ok := sendOk st'
        let sim1 := { sim with st := st', n := sim.n + 1 }
        if !sim.mixed then
          if res == "ok" && !ok then diff sim1 line "real send Ok, model Err(Closed) (no subscriber left)"
          else if res == "closed" && ok then diff sim1 line "real send Err(Closed), model Ok"
          else if res == "err" then diff sim1 line "real send returned a remote error in a local case"
          else if res == "ok" && k != took then diff sim1 line s!"send reached {k} subscribers, model {took}"
          else return sim1
        else
          if res != "ok" && ok then diff sim1 line s!"real send {res} although a local subscriber is attached"
          else if res == "ok" && k < took then diff sim1 line s!"send reached {k} subscribers, model at least {took}"
          else return sim1
    | _ => diff sim line "unparsable send"
  | ["try", id] =>
    match id.toNat?, rhs.head?.bind parseObs with
    | some id, some o =>
      let sim ← observe sim line id o
      replayObs sim line id o false
    | _, _ => diff sim line "unparsable try"
  | ["recv", id] =>
    match id.toNat?, rhs.head?.bind parseObs with
    | some id, some o =>
      let sim ← observe sim line id o
      replayObs sim line id o true
    | _, _ => diff sim line "unparsable recv"
  | ["settle"] => return { sim with st := settleModel sim.st }
  | ["count"] =>
    if sim.mixed then return sim else
    match rhs.head?.bind (·.toNat?) with
    | some k =>
      let mk := sim.st.subs.countP (fun sb => sb.mode != .gone)
      if k != mk then diff sim line s!"receiver_count {k}, model {mk}" else return sim
    | none => diff sim line "unparsable count"
  | ["dropsub", id] =>
    match id.toNat? with
    | some id =>
      match sim.subs[id]? with
      | none => diff sim line "dropsub of unknown subscriber"
      | some m =>
        let sim := { sim with subs := sim.subs.set! id { m with alive := false } }
        match m.modelIdx with
        | none => return sim
        | some j =>
          match step sim.st (.dropSub j) with
          | some st' => return { sim with st := st' }
          | none => diff sim line "model does not allow dropSub here"
    | none => diff sim line "unparsable dropsub"
  | ["dropsender"] =>
    let sim := { sim with senderAlive := false }
    match step sim.st .dropSender with
    | some st' => return { sim with st := st' }
    | none => diff sim line "model does not allow dropSender here"
  | ["clonesender"] => return sim
  | "abort" :: _ =>
    IO.println s!"ABORT {sim.name} line={line}"
    return { sim with active := false }
  | "panic" :: rest => fail sim line ("panic in the real code or harness: " ++ " ".intercalate rest)
  | ["end"] => finishCase sim line
  | _ => diff sim line s!"unknown line: {l}"

def main : IO Unit := do
  let stdin ← IO.getStdin
  lineLoop stdin ({} : Sim) 1 stepLine (fun sim => do
    let sim ← (if sim.active then finishCase sim 0 else pure sim)
    IO.println s!"TOTAL cases={sim.total} replay_mismatch={sim.totalDiff} pred_fail={sim.totalFail}")
