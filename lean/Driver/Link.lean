import RemocModel.Link.Model
import RemocModel.Wire.Model
import Driver.Util
import Driver.LinkFwd
/-
Driver for the port-level correspondence (C01 C02 C03 C11): reads traces produced by the `mux`
harness (two real chmux endpoints on script-owned wires) and, per trace,

 (i)  *replays* it on M_link: every API call, every frame put on a wire, every frame delivered
      and every counter probe must be what `Remoc.Link.step` produces when the model is run
      eagerly after each stimulus (exact for traces generated in "stepped" mode, see DESIGN.md);
 (ii) evaluates the property predicates directly on the real trace, independently of the model:
        c01  delivered messages are a prefix of the completed sends, byte for byte, and equal at
             an `expect-drained` marker;
        c02  at every prefix: cost on the wire minus credit delivered back ≤ advertised buffer,
             every frame ≤ advertised chunk size, credit granted ≤ cost delivered;
        c03  no livelock, no empty port batch, no empty data frame inside a non-empty message,
             and at every quiescent point with drained wires and nothing buffered no send is
             pending on an open port.

Output: `DIFF <trace> <line> <what>` for replay mismatches, `FAIL <trace> <prop> <line> <what>` for
predicate failures, `END <trace> events=<n> replay=<ok|mismatch> c01=.. c02=.. c03=..`.
-/
open Driver
open Remoc.Link

abbrev Assoc (α : Type) := List (String × α)

def Assoc.get? {α} (m : Assoc α) (k : String) : Option α := (m.find? (·.1 == k)).map (·.2)
def Assoc.set {α} (m : Assoc α) (k : String) (v : α) : Assoc α :=
  if m.any (·.1 == k) then m.map (fun p => if p.1 == k then (k, v) else p) else m ++ [(k, v)]
def Assoc.erase {α} (m : Assoc α) (k : String) : Assoc α := m.filter (·.1 != k)

def other (s : String) : String := if s == "A" then "B" else "A"

structure SideCfg where
  chunk : Nat := 0
  buf : Nat := 0
  maxData : Nat := 0
  maxPorts : Nat := 0
  sq : Nat := 16
deriving Repr

/-- what a pending sender-side call still has to do after the current `Xfer` -/
structure SendProg where
  k : String
  labels : List Label := []     -- remaining chunkSend labels
  dropAtEnd : Bool := false     -- `end=drop`: the ChunkSender is dropped after the last part
  kind : String := "send"
  data : Bytes := []            -- whole message (for the c01 predicate)
  completes : Bool := true      -- does a successful return complete a message?

structure LinkSim where
  cfg : Cfg
  st : State
  wired : Nat := 0
  backAll : List Back := []
  backWired : Nat := 0
  prog : Option SendProg := none
  recvCall : Option (String × Nat) := none      -- (call id, 0 = recv_any, 1 = recv_chunk, 2 = recv)
  -- real-trace monitors (independent of `st`)
  mOutstanding : Nat := 0       -- cost tx'd by the sender
  mGrantedRx : Nat := 0         -- credits delivered back to the sender
  mGrantedTx : Nat := 0         -- credits put on the wire by the receiver
  mCostRx : Nat := 0            -- cost of frames delivered to the receiver
  mCompleted : List Bytes := []
  mDelivered : List Bytes := []
  mPartial : Option Bytes := none
  mMsgOpenNonEmpty : Bool := false   -- a non-empty message is being transmitted (for empty-frame check)
  /-- first close notification delivered to the sender side: (graceful, trace line) -/
  mCloseRx : Option (Bool × Nat) := none
  /-- the caller dropped a pending `recv_chunk`: it left its chunk loop and discarded a message -/
  mAbandoned : Bool := false

structure Sim where
  name : String := ""
  events : Nat := 0
  cfgs : Assoc SideCfg := []
  /-- (side ++ ":" ++ local port number) ↦ port name -/
  portName : Assoc String := []
  /-- port name ↦ known sides -/
  portSides : Assoc (List String) := []
  /-- (name ++ ">" ++ sender side) ↦ link -/
  links : Assoc LinkSim := []
  /-- call id ↦ (link key, role) -/
  calls : Assoc (String × String) := []
  /-- predicted results not yet seen in the trace: call id ↦ result text -/
  predicted : Assoc String := []
  /-- Data header seen on a wire, waiting for its payload item: side ↦ (port, first, last) -/
  hdrTx : Assoc (Nat × Bool × Bool) := []
  hdrRx : Assoc (Nat × Bool × Bool) := []
  txCount : Assoc Nat := []
  rxCount : Assoc Nat := []
  replayOk : Bool := true
  exact : Bool := true      -- trace claims exact (stepped) mode
  c01 : Bool := true
  c02 : Bool := true
  c03 : Bool := true
  c11 : Bool := true
  callLine : Assoc Nat := []
  chunkCalls : List String := []
  out : List String := []
  seenCalls : List String := []
  callData : Assoc Bytes := []
  teardown : Bool := false
  windowOpen : Assoc Bool := []
  closedPorts : List String := []   -- link keys whose receiver closed/dropped (sends may fail)
  /-- port forwarders (`Receiver::forward`): source link key ↦ destination link key -/
  fwd : Assoc String := []
  /-- wires whose delivery (`release`) the script restricted -/
  releaseOpen : Assoc Bool := []
  /-- link key ↦ line at which a `Receiver::close()` call of its receiving half returned -/
  closeOk : Assoc Nat := []
  /-- line of the latest quiescent point -/
  lastSettle : Nat := 0
  /-- `Receiver::forward` calls: model phase and real-trace monitors (`Driver/LinkFwd.lean`) -/
  fwds : List FwdSim := []
  c05 : Bool := true
  pm : PairMon := {}

def Sim.diff (s : Sim) (line : Nat) (what : String) : Sim :=
  if s.exact && !s.teardown then
    { s with replayOk := false, out := if s.out.length < 12 then s.out ++ [s!"DIFF {s.name} line={line} {what}"] else s.out }
  else s

def Sim.fail (s : Sim) (prop : String) (line : Nat) (what : String) : Sim :=
  let s := { s with out := if s.out.length < 12 then s.out ++ [s!"FAIL {s.name} {prop} line={line} {what}"] else s.out }
  match prop with
  | "c01" => { s with c01 := false }
  | "c02" => { s with c02 := false }
  | "c11" => { s with c11 := false }
  | "c05" => { s with c05 := false }
  | _ => { s with c03 := false }

def kvGet (ws : List String) (key : String) : Option String :=
  (ws.find? (·.startsWith (key ++ "="))).map (fun w => (w.drop (key.length + 1)).toString)

def kvNat (ws : List String) (key : String) : Option Nat := (kvGet ws key).bind (·.toNat?)

/-- Apply one label; record new back frames. -/
def LinkSim.stepL (l : LinkSim) (lab : Label) : Option LinkSim :=
  match step l.cfg l.st lab with
  | none => none
  | some st' =>
    let newBack := st'.back.drop (match lab with | .provide => l.st.back.length - 1 | _ => l.st.back.length)
    some { l with st := st', backAll := l.backAll ++ newBack }

/-- Run the sender's internal labels to quiescence, advancing a chunk program; returns predicted
call results. -/
partial def LinkSim.runSender (l : LinkSim) (acc : List (String × String)) : LinkSim × List (String × String) :=
  -- closed provider: the pending call fails
  match l.stepL .fail with
  | some l' =>
    match l.prog with
    | some p =>
      let g := match l.st.s.closed with | some true => "1" | _ => "0"
      ({ l' with prog := none }, acc ++ [(p.k, s!"err closed gracefully={g}")])
    | none => (l', acc)
  | none =>
  match l.stepL .giveBack with
  | some l' => l'.runSender acc
  | none =>
  match l.stepL .request with
  | some l' => l'.runSender acc
  | none =>
  match l.stepL .emit with
  | some l' =>
    -- did the call in progress return?
    if l'.st.s.cur.isNone then
      match l'.prog with
      | none => l'.runSender acc
      | some p =>
        match p.labels with
        | lab :: rest =>
          match l'.stepL lab with
          | some l'' => ({ l'' with prog := some { p with labels := rest } }).runSender acc
          | none => (l', acc)
        | [] =>
          if p.dropAtEnd then
            match l'.stepL .cancel with
            | some l'' => ({ l'' with prog := none }, acc ++ [(p.k, "dropped")])
            | none => ({ l' with prog := none }, acc ++ [(p.k, "dropped")])
          else
            ({ l' with prog := none }, acc ++ [(p.k, if p.kind == "pconnect" then "ok-ports" else "ok")])
    else l'.runSender acc
  | none => (l, acc)

def outText : Out → String
  | .data b => s!"data {toHex b}"
  | .chunksStart => "chunks"
  | .requests ids => s!"requests-n {ids.length}"
  | .chunk b => s!"chunk {toHex b}"
  | .chunkEnd => "none"
  | .cancelled => "err cancelled"
  | .tooManyPorts => "err maxports"
  | .eos => "none"

/-- Run the pending receive call (if any) until it returns or blocks. -/
partial def LinkSim.runRecv (l : LinkSim) (acc : List (String × String)) : LinkSim × List (String × String) :=
  match l.recvCall with
  | none => (l, acc)
  | some (k, kind) =>
    let before := l.st.outs.length
    match l.stepL (if kind == 1 then .recvChunk else .recvAny) with
    | none =>
      -- finished receiver: recv_any returns None immediately
      if l.st.r.finished then ({ l with recvCall := none }, acc ++ [(k, "none")]) else (l, acc)
    | some l' =>
      match l'.st.outs.drop before with
      | o :: _ =>
        if kind == 2 then
          -- `recv`: port requests are skipped, a message above max_data_size is an error
          match o with
          | .requests _ => l'.runRecv acc
          | .tooManyPorts => ({ l' with recvCall := none }, acc ++ [(k, s!"err maxports {l.cfg.maxPorts}")])
          | .chunksStart => ({ l' with recvCall := none }, acc ++ [(k, s!"err maxdata {l.cfg.maxData}")])
          | o => ({ l' with recvCall := none }, acc ++ [(k, outText o)])
        else ({ l' with recvCall := none }, acc ++ [(k, outText o)])
      | [] => l'.runRecv acc

def Sim.link? (s : Sim) (name fromSide : String) : Option LinkSim := s.links.get? (name ++ ">" ++ fromSide)
def Sim.setLink (s : Sim) (name fromSide : String) (l : LinkSim) : Sim :=
  { s with links := s.links.set (name ++ ">" ++ fromSide) l }

def Sim.addPredicted (s : Sim) (rs : List (String × String)) : Sim :=
  { s with predicted := rs.foldl (fun m (k, v) => m.set k v) s.predicted }

/-! ### port forwarders (`Receiver::forward`): model run and real-trace monitors -/

def modifyAt {α} (l : List α) (i : Nat) (g : α → α) : List α :=
  (List.range l.length).zip l |>.map (fun (j, x) => if j == i then g x else x)

def Sim.updFwd (s : Sim) (i : Nat) (g : FwdSim → FwdSim) : Sim := { s with fwds := modifyAt s.fwds i g }

def Sim.isFwdDst (s : Sim) (key : String) : Bool := s.fwds.any (·.dst == key)

/-- result of `forward` as the harness prints it (the byte total is not modelled) -/
def fwdResultText (b : State) : FwdResult → String
  | .ok => "ok-forward"
  | .errRecv => "err recv"
  | .errSend => s!"err send err closed gracefully={match b.s.closed with | some true => "1" | _ => "0"}"

/-- Run forwarder `i` of the model (`Remoc.Link.fstep`, pairing as coded) until no forwarder label is enabled.
The two links live in `s.links`; after `forward` returned the harness drops both ports. -/
partial def Sim.runFwd (s : Sim) (i : Nat) : Sim :=
  match s.fwds[i]? with
  | none => s
  | some fs =>
    match s.links.get? fs.src, s.links.get? fs.dst with
    | some la, some lb =>
      let f : Fwd := { a := la.st, b := lb.st, ph := fs.ph, closedSeen := fs.closedSeen }
      let labels : List FLabel :=
        match fs.ph with
        | .done _ => [.dropTx, .dropRx]
        | _ => [.fail, .emit, .down .giveBack, .down .request, .recvChunk, .recvAny, .closedEvt, .connect,
                .alloc (1000 + fs.nAlloc)]
      match labels.findSome? (fun l => (fstep .asCoded la.cfg lb.cfg f l).map (fun f' => (l, f'))) with
      | none => s
      | some (l, f') =>
        let la' := { la with st := f'.a, backAll := la.backAll ++ f'.a.back.drop la.st.back.length }
        let lb' := { lb with st := f'.b, backAll := lb.backAll ++ f'.b.back.drop lb.st.back.length }
        let s := { s with links := (s.links.set fs.src la').set fs.dst lb' }
        let isAlloc := match l with | .alloc _ => true | _ => false
        let s := s.updFwd i (fun x => { x with ph := f'.ph, closedSeen := f'.closedSeen,
                                               nAlloc := if isAlloc then x.nAlloc + 1 else x.nAlloc })
        let s := match fs.ph, f'.ph with
          | .done _, _ => s
          | _, .done r => s.addPredicted [(fs.k, fwdResultText f'.b r)]
          | _, _ => s
        s.runFwd i
    | _, _ => s

def Sim.runAllFwd (s : Sim) : Sim := (List.range s.fwds.length).foldl (fun s i => s.runFwd i) s

/-- a frame of the source port of a forwarder was delivered to the forwarding endpoint -/
def Sim.fwdOnRx (s : Sim) (key : String) (f : Frame) : Sim :=
  let isPorts := match f with | .ports _ _ _ => true | _ => false
  { s with fwds := s.fwds.map (fun x =>
      if x.src == key then { x with upRx := x.upRx ++ [f], upCur := if isPorts then x.upCur else none } else x) }

/-- the forwarding endpoint put a frame for the destination port of a forwarder on the wire:
`forward_chunks_exact` on the real frames -/
def Sim.fwdOnTx (s : Sim) (line : Nat) (key : String) (f : Frame) : Sim :=
  s.fwds.zipIdx.foldl (fun s (x, i) =>
    if x.dst != key then s else
    let isPorts := match f with | .ports _ _ _ => true | _ => false
    let x' := { x with downTx := x.downTx ++ [f], downCur := if isPorts then x.downCur else none }
    let s := s.updFwd i (fun _ => x')
    let s := if x'.exactOk then s else
      s.fail "c11" line s!"forwarder {x.k}: the messages completed on {x.dst} {showMsgs (parse none x'.downTx)} are not a prefix of the messages received on {x.src} {showMsgs (parse none x'.upRx)} (a truncated, altered or invented message was forwarded as complete)"
    -- `forward_eos_after_all`: after an `Ok` return the sender is dropped; its `SendFinish` follows every relayed
    -- frame on the wire, and by then everything received must have been completed downstream
    match f with
    | .finish =>
      if x'.retOk && !x'.allRelayed then
        s.fail "c11" line s!"forwarder {x.k} returned Ok (upstream ended) and end-of-stream is sent on {x.dst} after the messages {showMsgs (parse none x'.downTx)}, but it had received {showMsgs (parse none x'.upRx)} on {x.src}"
      else s
    | _ => s) s

/-- ids of a PortData frame on a forwarder's source (delivered) or destination (put on the wire) port:
`forward_requests_paired` on the real frames -/
def Sim.fwdIds (s : Sim) (line : Nat) (isTx : Bool) (key : String) (ids : List Nat) (first last : Bool) : Sim :=
  s.fwds.zipIdx.foldl (fun s (x, i) =>
    if !isTx && x.src == key then
      let (cur, done) := idsStep x.upCur x.upIds ids first last
      s.updFwd i (fun x => { x with upIds := done, upCur := cur })
    else if isTx && x.dst == key then
      let (cur, done) := idsStep x.downCur x.downIds ids first last
      let x' := { x with downIds := done, downCur := cur }
      let s := s.updFwd i (fun _ => x')
      if natPrefix x'.downIds x'.upIds then s else
        s.fail "c05" line s!"forwarder {x.k}: the forwarded connect carries ids {x'.downIds} but the received requests have ids {x'.upIds} (ids must be preserved, in order)"
    else s) s

/-- close notification for a forwarder's destination port delivered to the forwarding endpoint -/
def Sim.fwdOnCloseRx (s : Sim) (line : Nat) (key : String) (isFinish : Bool) : Sim :=
  { s with fwds := s.fwds.map (fun x =>
      if x.dst != key then x else
      let x := if x.closeRx.isNone then { x with closeRx := some (!isFinish, line) } else x
      if isFinish && x.finRx.isNone then { x with finRx := some line } else x) }

/-- the forwarding endpoint put `ReceiveClose` for a forwarder's source port on the wire:
`forward_close_classified` (1) on the real trace -/
def Sim.fwdOnCloseTx (s : Sim) (line : Nat) (key : String) : Sim :=
  s.fwds.zipIdx.foldl (fun s (x, i) =>
    if x.src != key then s else
    let s := s.updFwd i (fun x => { x with closeTx := some line })
    if x.closeRx.isSome then s else
      s.fail "c11" line s!"forwarder {x.k} closed its upstream receiver ({x.src}) although no close notification for {x.dst} had been delivered to it") s

/-- key (`name>sender side`) of the link a port-addressed message belongs to; `port` is the number at the
side that receives the message -/
def Sim.keyOf (s : Sim) (recvSide : String) (port : Nat) : Option String :=
  (s.portName.get? (recvSide ++ ":" ++ toString port)).map (fun name => name ++ ">" ++ other recvSide)

/-- the frame as the model sees it: port frames are compared by count and flags only -/
def normFrame : Frame → Frame
  | .ports ids f l => .ports (List.replicate ids.length 0) f l
  | f => f

def frameText : Frame → String
  | .data p f l => s!"data[{toHex p},first={f},last={l}]"
  | .ports ids f l => s!"ports[n={ids.length},first={f},last={l}]"
  | .finish => "finish"

/-- message bookkeeping for the real-trace c01 predicate: a receive result arrived -/
def LinkSim.monRecv (l : LinkSim) (res : List String) : LinkSim :=
  match res with
  -- a new message starts while a chunked one is still being read: the caller answered `Received::Chunks` by
  -- calling `recv_any` again instead of draining with `recv_chunk`, i.e. it declined the rest of that message
  | ["data", h] => match parseHex h with
    | some b => { l with mDelivered := l.mDelivered ++ [b], mPartial := none, mAbandoned := l.mAbandoned || l.mPartial.isSome }
    | none => l
  | ["chunks"] => { l with mPartial := some [], mAbandoned := l.mAbandoned || l.mPartial.isSome }
  | "requests" :: _ => { l with mPartial := none, mAbandoned := l.mAbandoned || l.mPartial.isSome }
  | ["chunk", h] => match parseHex h, l.mPartial with
    | some b, some acc => { l with mPartial := some (acc ++ b) }
    | _, _ => l
  | ["none"] => match l.mPartial with
    | some acc => { l with mDelivered := l.mDelivered ++ [acc], mPartial := none }
    | none => l
  | "err" :: _ => { l with mPartial := none }
  | _ => l

def isPrefix : List Bytes → List Bytes → Bool
  | [], _ => true
  | _ :: _, [] => false
  | a :: as, b :: bs => a == b && isPrefix as bs

/-- A frame from side `S` appeared on the wire (`tx`) -/
def Sim.onTxFrame (s : Sim) (line : Nat) (side : String) (port : Nat) (f : Frame) : Sim :=
  let rside := other side
  match s.portName.get? (rside ++ ":" ++ toString port) with
  | none => s     -- port not (yet) known: frames of ports opened inside the scenario are ignored
  | some name =>
    let s := s.fwdOnTx line (name ++ ">" ++ side) f
    match s.link? name side with
    | none => s
    | some l =>
      -- c02 / c03 predicates on the real frame
      let cost := f.cost
      let l := { l with mOutstanding := l.mOutstanding + cost }
      let s := if f.oversize l.cfg then s.fail "c02" line s!"frame exceeds advertised chunk size {l.cfg.chunk}: {frameText f}" else s
      let s := if l.mOutstanding - l.mGrantedRx > l.cfg.limit then
          s.fail "c02" line s!"outstanding {l.mOutstanding - l.mGrantedRx} exceeds advertised receive buffer {l.cfg.limit} on {name}>{side}"
        else s
      let s := match f with
        | .ports ids _ _ => if ids.isEmpty then s.fail "c03" line s!"empty port batch frame on {name}>{side}" else s
        | _ => s
      -- replay: the model must have emitted exactly this frame next
      let s := match l.st.emitted[l.wired]? with
        | some mf =>
          if normFrame mf == normFrame f then s
          else s.diff line s!"tx {name}>{side}: model emits {frameText mf}, real {frameText f}"
        | none => s.diff line s!"tx {name}>{side}: model emits nothing, real {frameText f}"
      s.setLink name side { l with wired := l.wired + 1 }

/-- A frame was delivered to side `R` (`rx`) -/
def Sim.onRxFrame (s : Sim) (line : Nat) (rside : String) (port : Nat) (f : Frame) : Sim :=
  match s.portName.get? (rside ++ ":" ++ toString port) with
  | none => s
  | some name =>
    let side := other rside
    let s := s.fwdOnRx (name ++ ">" ++ side) f
    match s.link? name side with
    | none => s
    | some l =>
      let l := { l with mCostRx := l.mCostRx + f.cost }
      match l.st.chan with
      | mf :: _ =>
        let s := if normFrame mf == normFrame f then s
          else s.diff line s!"rx {name}>{side}: model has {frameText mf} in flight, real delivers {frameText f}"
        match l.stepL .muxRecv with
        | some l' =>
          let s := if l'.st.protoErr then s.diff line s!"rx {name}>{side}: model raises a flow-control protocol error" else s
          let (l'', rs) := l'.runRecv []
          (s.setLink name side l'').addPredicted rs
        | none => s.setLink name side l
      | [] => (s.diff line s!"rx {name}>{side}: model has nothing in flight, real delivers {frameText f}").setLink name side l

/-- `PortCredits` from side `R` (the receiver of link name>S) appeared on the wire -/
def Sim.onTxCredits (s : Sim) (line : Nat) (rside : String) (port : Nat) (n : Nat) : Sim :=
  let side := other rside
  match s.portName.get? (side ++ ":" ++ toString port) with
  | none => s
  | some name =>
    match s.link? name side with
    | none => s
    | some l =>
      let l := { l with mGrantedTx := l.mGrantedTx + n }
      let s := if l.mGrantedTx > l.mCostRx then
          s.fail "c02" line s!"receiver of {name}>{side} granted {l.mGrantedTx} credits but only {l.mCostRx} were delivered to it"
        else s
      let s := match l.backAll.filter (fun b => match b with | .credits _ => true | _ => false) |>.drop l.backWired with
        | .credits m :: _ => if m == n then s else s.diff line s!"credits {name}>{side}: model returns {m}, real {n}"
        | _ => s.diff line s!"credits {name}>{side}: model returns nothing, real {n}"
      s.setLink name side { l with backWired := l.backWired + 1 }

/-- `PortCredits` delivered to side `S` -/
def Sim.onRxCredits (s : Sim) (line : Nat) (side : String) (port : Nat) (n : Nat) : Sim :=
  match s.portName.get? (side ++ ":" ++ toString port) with
  | none => s
  | some name =>
    match s.link? name side with
    | none => s
    | some l =>
      let l := { l with mGrantedRx := l.mGrantedRx + n }
      -- skip non-credit back frames at the head (close/finish notifications are handled by their own events)
      match l.st.back with
      | .credits m :: _ =>
        let s := if m == n then s else s.diff line s!"provide {name}>{side}: model {m}, real {n}"
        match l.stepL .provide with
        | some l' =>
          -- the sends of a forwarder are run by its own model (`runFwd`)
          if s.isFwdDst (name ++ ">" ++ side) then s.setLink name side l' else
          let (l'', rs) := l'.runSender []
          (s.setLink name side l'').addPredicted rs
        | none => s.setLink name side l
      | _ => (s.diff line s!"provide {name}>{side}: model has no credits in flight, real {n}").setLink name side l

/-- `ReceiveClose` / `ReceiveFinish` delivered to side `S` (the sender of link name>S) -/
def Sim.onRxCloseFin (s : Sim) (line : Nat) (side : String) (port : Nat) (isFinish : Bool) : Sim :=
  match s.portName.get? (side ++ ":" ++ toString port) with
  | none => s
  | some name =>
    match s.link? name side with
    | none => s
    | some l =>
      let s := s.fwdOnCloseRx line (name ++ ">" ++ side) isFinish
      let l := if l.mCloseRx.isNone then { l with mCloseRx := some (!isFinish, line) } else l
      -- A forwarder that finds both upstream data and the close of its destination ready handles them in the
      -- order `tokio::select!` picks at random; the model run takes the data first.  Both orders are accepted:
      -- (A) the real forwarder closed its source port, the model's has not (yet): adopt the close;
      -- (B) the model's forwarder closed its source port, the real one returned without: drop the model's close.
      let key := name ++ ">" ++ side
      let fwdSrc := s.fwds.find? (·.src == key)
      let headClose := match l.st.back.dropWhile (fun b => match b with | .credits _ => true | _ => false) with
        | .recvClose :: _ => true | _ => false
      let dstClosed := match fwdSrc with
        | some x => ((s.links.get? x.dst).map (fun dl => dl.st.s.closed.isSome)).getD false
        | none => false
      let caseA := !isFinish && !headClose && !(l.st.back.any (· == .recvClose)) &&
        (match fwdSrc with | some x => !x.closedSeen && dstClosed | none => false)
      let caseB := isFinish && headClose && fwdSrc.isSome
      let l := if caseA then { l with st := { l.st with back := .recvClose :: l.st.back, r := { l.st.r with closed := true } } }
               else if caseB then { l with st := { l.st with back := l.st.back.filter (· != .recvClose) } } else l
      let s := if caseA then { s with fwds := s.fwds.map (fun x => if x.src == key then { x with closedSeen := true } else x) } else s
      -- a credit return deferred by a full event queue (`return_fut`) is flushed by the next receive
      -- call and may therefore be overtaken by the close notification: reorder the model's FIFO
      let isCred := fun (b : Back) => match b with | .credits _ => true | _ => false
      let creds := l.st.back.takeWhile isCred
      let rest := l.st.back.dropWhile isCred
      let l := match rest with
        | b :: more => if creds.isEmpty then l else { l with st := { l.st with back := b :: (creds ++ more) } }
        | [] => l
      let s := s.setLink name side l
      match l.st.back with
      | b :: _ =>
        let okKind := match b with | .recvClose => !isFinish | .recvFinish => isFinish | _ => false
        let s := if okKind then s else s.diff line s!"close {name}>{side}: model head of back queue differs"
        match l.stepL .provide with
        | some l' =>
          if s.isFwdDst (name ++ ">" ++ side) then s.setLink name side l' else
          let (l'', rs) := l'.runSender []
          (s.setLink name side l'').addPredicted rs
        | none => s.setLink name side l
      | [] => s.diff line s!"close {name}>{side}: model has nothing in flight"

def msgOfWire (bs : List UInt8) : Option Remoc.Wire.Msg :=
  match Remoc.Wire.decode bs with
  | .ok m => some m
  | .error _ => none

def Sim.bump (m : Assoc Nat) (k : String) : Assoc Nat := m.set k ((m.get? k).getD 0 + 1)

def Sim.onWire (s : Sim) (line : Nat) (isTx : Bool) (side : String) (hex : String) : Sim :=
  let s := if isTx then { s with txCount := Sim.bump s.txCount side } else { s with rxCount := Sim.bump s.rxCount side }
  match parseHex hex with
  | none => s.diff line "unparsable hex"
  | some bs =>
    let hdrs := if isTx then s.hdrTx else s.hdrRx
    match hdrs.get? side with
    | some (port, first, last) =>
      -- this item is the payload of the preceding Data header
      let s := if isTx then { s with hdrTx := s.hdrTx.erase side } else { s with hdrRx := s.hdrRx.erase side }
      let f := Frame.data bs first last
      if isTx then s.onTxFrame line side port f else s.onRxFrame line side port f
    | none =>
      match msgOfWire bs with
      | none => s.diff line s!"frame not decodable by the v3 spec decoder: {hex}"
      | some m =>
        match m with
        | .data port first last =>
          if isTx then { s with hdrTx := s.hdrTx.set side (port, first, last) }
          else { s with hdrRx := s.hdrRx.set side (port, first, last) }
        | .portData port first last _ ps ids =>
          let f := Frame.ports (List.replicate ps.length 0) first last
          -- the ids actually carried (id = port number when none is given)
          let s := match s.keyOf (if isTx then other side else side) port with
            | some key => s.fwdIds line isTx key (ids.getD ps) first last
            | none => s
          if isTx then s.onTxFrame line side port f else s.onRxFrame line side port f
        | .portCredits port n =>
          if isTx then s.onTxCredits line side port n else s.onRxCredits line side port n
        | .sendFinish port =>
          if isTx then s.onTxFrame line side port .finish else s.onRxFrame line side port .finish
        | .receiveClose port =>
          if isTx then
            -- `port` is the number at the other side; the link is <name>><other side> (its sender is told)
            match s.portName.get? (other side ++ ":" ++ toString port) with
            | some name => s.fwdOnCloseTx line (name ++ ">" ++ other side)
            | none => s
          else s.onRxCloseFin line side port false
        | .receiveFinish port => if isTx then s else s.onRxCloseFin line side port true
        | _ => s

def mkCfg (r : SideCfg) : Cfg := { chunk := r.chunk, limit := r.buf, maxData := r.maxData, maxPorts := r.maxPorts }

/-- a port handle became known on one side; create both links once both sides are known -/
def Sim.onPort (s : Sim) (name side : String) (localPort : Nat) : Sim :=
  let s := { s with portName := s.portName.set (side ++ ":" ++ toString localPort) name }
  let sides := ((s.portSides.get? name).getD []) ++ [side]
  let s := { s with portSides := s.portSides.set name sides }
  if sides.length == 2 then
    match s.cfgs.get? "A", s.cfgs.get? "B" with
    | some ca, some cb =>
      -- link A>B is governed by B's advertised configuration and vice versa
      let lab : LinkSim := { cfg := mkCfg cb, st := init (mkCfg cb) }
      let lba : LinkSim := { cfg := mkCfg ca, st := init (mkCfg ca) }
      (s.setLink name "A" lab).setLink name "B" lba
    | _, _ => s
  else s

def splitParts (t : String) : List String := if t == "none" then [] else t.splitOn ","

/-- c05 bookkeeping on script operations: which half a request was accepted onto, what was sent into which half -/
def Sim.pmOp (s : Sim) (ws : List String) : Sim :=
  let pm := s.pm
  match ws with
  | ["reqaccept", _, _, rq, name] =>
    match lookupS pm.reqId rq with
    | some id => { s with pm := { pm with halfId := pm.halfId ++ [(name, id)], decided := pm.decided ++ [(id, none)] } }
    | none => s
  | "reqreject" :: _ :: _ :: rq :: rest =>
    match lookupS pm.reqId rq with
    | some id => { s with pm := { pm with decided := pm.decided ++ [(id, some (rest.head? == some "1"))] } }
    | none => s
  | ["send", _, _, name, hx] =>
    match lookupS pm.halfId name with
    | some id => { s with pm := { pm with sentOn := pm.sentOn ++ [(hx, id, name)] } }
    | none => s
  | [op, k, _, name] =>
    if op == "recv" || op == "recvany" || op == "recvmsg" || op == "recvskip" then { s with pm := { pm with recvOn := pm.recvOn ++ [(k, name)] } } else s
  | _ => s

/-- c05 on API results: `forward_requests_paired` observed end to end.  The connect of the half with id `x`
resolves as the request with id `x` was answered, and data sent into a half comes out of the half with the same id. -/
def Sim.pmRet (s : Sim) (line : Nat) (k : String) (res : List String) : Sim :=
  let pm := s.pm
  -- results of `pconnect`: names k.i, ids from the `apiid` lines (id = port number without a custom id)
  let s := match res with
    | ["ok", pl] =>
      if pl.startsWith "ports=" then
        match parseNatList (pl.drop 6).toString with
        | some ps =>
          let add := ps.zipIdx.map (fun (p, i) => (s!"{k}.{i}", (lookupN pm.apiId p).getD p))
          { s with pm := { pm with halfId := pm.halfId ++ add } }
        | none => s
      else s
    | ["requests", l] =>
      if l == "-" then s else
      let add := (l.splitOn ",").zipIdx.filterMap (fun (e, j) =>
        match e.splitOn ":" with
        | [_, id, _] => id.toNat?.map (fun n => (s!"{k}.{j}", n))
        | _ => none)
      { s with pm := { pm with reqId := pm.reqId ++ add } }
    | _ => s
  let pm := s.pm
  -- result of an origin connect `pc.i`
  let isConn := (lookupS pm.recvOn k).isNone && (res.head? == some "ok" && (res.getD 1 "").startsWith "local=" || res.head? == some "err")
  let s := match lookupS pm.halfId k with
    | some id =>
      -- (requests that are dropped unanswered - teardown, a forwarder that has returned - resolve as rejected)
      if !isConn || s.teardown then s else
      match lookupN pm.decided id with
      | none =>
        if !(pm.reqId.any (·.2 == id)) || s.fwds.any (·.retLine.isSome) then s else
        s.fail "c05" line s!"connect {k} (id {id}) resolved with '{" ".intercalate res}' before the request with its id was answered: it was paired with another request"
      | some none =>
        if res.head? == some "ok" then s else
          s.fail "c05" line s!"connect {k} (id {id}) resolved with '{" ".intercalate res}' although the request with its id was accepted"
      | some (some np) =>
        let want := if np then "remote-ports-exhausted" else "rejected"
        if res == ["err", want] then s else
          s.fail "c05" line s!"connect {k} (id {id}) resolved with '{" ".intercalate res}' although the request with its id was rejected ({want})"
    | none => s
  -- data coming out of a half
  match res, lookupS pm.recvOn k with
  | ["data", hx], some name =>
    match lookupS pm.halfId name, lookupS pm.sentOn hx with
    | some idr, some (ids, sname) =>
      if idr != ids then
        s.fail "c05" line s!"{k}: data sent into the half with id {ids} came out of the half {name} with id {idr} (halves cross-wired)"
      else if sname == name then
        s.fail "c05" line s!"{k}: data sent into the half {name} came back out of the same half (not piped to its counterpart)"
      else s
    | _, _ => s
  | _, _ => s

/-- Script operation echoed by the harness -/
def Sim.onOp (s : Sim) (line : Nat) (ws : List String) : Sim :=
  let s := s.pmOp ws
  let s := match ws with
    | _ :: k :: _ => { s with callLine := s.callLine.set k line }
    | _ => s
  match ws with
  | ["send", k, side, name, hx] =>
    match s.link? name side, parseHex hx with
    | some l, some d =>
      match l.stepL (.startSend d) with
      | some l' =>
        let l' := { l' with prog := some { k := k, data := d }, mMsgOpenNonEmpty := !d.isEmpty }
        let (l'', rs) := l'.runSender []
        ({ (s.setLink name side l'') with calls := s.calls.set k (name ++ ">" ++ side, "send"), callData := s.callData.set k d }).addPredicted rs
      | none => s.diff line s!"send {k}: model cannot start a send (operation in progress?)"
    | _, _ => s
  | ["trysend", k, side, name, hx] =>
    match s.link? name side, parseHex hx with
    | some l, some d =>
      let want := max 1 d.length
      let s := { s with calls := s.calls.set k (name ++ ">" ++ side, "trysend"), callData := s.callData.set k d }
      if !l.st.s.open then
        let g := match l.st.s.closed with | some true => "1" | _ => "0"
        s.addPredicted [(k, s!"err closed gracefully={g}")]
      else if l.st.s.pool < want then s.addPredicted [(k, "full")]
      else
        -- `try_send` queues its chunks synchronously: with more chunks than free slots in the
        -- event queue (`shared_send_queue`, empty at a quiescent point) it stops half-way with Full
        let sq := ((s.cfgs.get? side).map (·.sq)).getD 16
        let nchunks := if d.isEmpty then 1 else (d.length + l.cfg.chunk - 1) / l.cfg.chunk
        match l.stepL (.startSend d) with
        | some l' =>
          if nchunks ≤ sq then
            let l' := { l' with prog := some { k := k, data := d, kind := "trysend" }, mMsgOpenNonEmpty := false }
            let (l'', rs) := l'.runSender []
            (s.setLink name side l'').addPredicted rs
          else
            let l' := (l'.stepL .request).getD l'
            let l' := (List.range sq).foldl (fun (acc : LinkSim) _ => (acc.stepL .emit).getD acc) l'
            let l' := (l'.stepL .cancel).getD l'
            (s.setLink name side { l' with prog := none }).addPredicted [(k, "full")]
        | none => s.diff line s!"trysend {k}: model cannot start"
    | _, _ => s
  | "chunks" :: k :: side :: name :: parts :: rest =>
    match s.link? name side with
    | some l =>
      let ps := (splitParts parts).filterMap parseHex
      let endKind := (kvGet rest "end").getD "finish"
      -- labels: every part as a non-final chunk, except `final` sends the last part with fin=true;
      -- `finish` adds an empty final call
      let n := ps.length
      let labs : List Label :=
        (List.range n).map (fun i => Label.chunkSend (ps.getD i []) (endKind == "final" && i + 1 == n))
        ++ (if endKind == "finish" || (endKind == "final" && n == 0) then [Label.chunkSend [] true] else [])
      match l.stepL .startChunks with
      | some l' =>
        let whole := ps.foldl (· ++ ·) []
        match labs with
        | lab :: more =>
          match l'.stepL lab with
          | some l'' =>
            let l'' := { l'' with prog := some { k := k, labels := more, dropAtEnd := endKind == "drop", kind := "chunks",
                                                 data := whole, completes := endKind != "drop" },
                                  mMsgOpenNonEmpty := false }
            let (l3, rs) := l''.runSender []
            ({ (s.setLink name side l3) with calls := s.calls.set k (name ++ ">" ++ side, "chunks"), callData := s.callData.set k whole }).addPredicted rs
          | none => s.diff line s!"chunks {k}: model cannot send chunk"
        | [] =>
          -- no parts and end=drop: the ChunkSender is created and dropped
          match l'.stepL .cancel with
          | some l'' => ({ (s.setLink name side l'') with calls := s.calls.set k (name ++ ">" ++ side, "chunks") }).addPredicted [(k, "dropped")]
          | none => s
      | none => s.diff line s!"chunks {k}: model cannot start a chunk stream"
    | none => s
  | "pconnect" :: k :: side :: name :: rest =>
    match s.link? name side with
    | some l =>
      let n := (kvNat rest "n").getD 1
      match l.stepL (.startConnect (List.replicate n 0)) with
      | some l' =>
        let l' := { l' with prog := some { k := k, kind := "pconnect", completes := false }, mMsgOpenNonEmpty := false }
        let (l'', rs) := l'.runSender []
        ({ (s.setLink name side l'') with calls := s.calls.set k (name ++ ">" ++ side, "pconnect") }).addPredicted rs
      | none => s.diff line s!"pconnect {k}: model cannot start"
    | none => s
  | ["drop", side, name, which] =>
    if which == "tx" then
      match s.link? name side with
      | some l =>
        match l.stepL .dropSender with
        | some l' => s.setLink name side l'
        | none => s    -- dropped with an operation in progress: not modelled, replay continues without it
      | none => s
    else
      let s := { s with closedPorts := s.closedPorts ++ [name ++ ">" ++ other side] }
      match s.link? name (other side) with
      | some l =>
        match l.stepL .dropReceiver with
        | some l' => s.setLink name (other side) { l' with recvCall := none }
        | none => s
      | none => s
  | ["cancelcalls", side, name, which] =>
    if which == "rx" then
      match s.link? name (other side) with
      | some l =>
        match l.recvCall with
        | some (_, kind) =>
          let st' := if kind == 1 then { l.st with partialMsg := none } else l.st
          s.setLink name (other side) { l with recvCall := none, st := st', mPartial := if kind == 1 then none else l.mPartial, mAbandoned := l.mAbandoned || kind == 1 }
        | none => s
      | none => s
    else s
  | ["forward", k, side, name, dst] =>
    -- `Receiver::forward` of port `name` into the sender of port `dst`, both on `side`: whatever completes on
    -- the source link counts as sent on the destination link
    let s := { s with fwd := s.fwd.set (name ++ ">" ++ other side) (dst ++ ">" ++ side),
                      calls := s.calls.set k (name ++ ">" ++ other side, "forward") }
    -- chunk-granular model of the forwarder: `forward` switches the graceful-close override of its sender on
    let dkey := dst ++ ">" ++ side
    let s := match s.links.get? dkey with
      | some dl => { s with links := s.links.set dkey { dl with cfg := { dl.cfg with ovr := true } } }
      | none => s
    let fs : FwdSim := { k := k, src := name ++ ">" ++ other side, dst := dkey, side := side }
    let s := { s with fwds := s.fwds ++ [fs] }
    s.runAllFwd
  | [op, k, side, name] =>
    if op == "recvany" || op == "recvchunk" || op == "recv" then
      -- the receiver of port `name` on `side` is the receiving half of link name>other(side)
      match s.link? name (other side) with
      | some l =>
        -- `recv_any` / `recv` while a chunked message is being read: the caller declines the rest of that message
        -- (outside the documented protocol, so outside the LTS, whose `recvAny` label is disabled then; the executable
        -- functions `recvAnyStep` / `anyFrame` cover it: the remaining chunks are taken from the queue, their credit is
        -- returned, and they are discarded)
        let l := if op != "recvchunk" && l.st.partialMsg.isSome then
            { l with st := { l.st with partialMsg := none }, mAbandoned := true, mPartial := none } else l
        let l := { l with recvCall := some (k, if op == "recvchunk" then 1 else if op == "recv" then 2 else 0) }
        let (l', rs) := l.runRecv []
        let s1 := s.setLink name (other side) l'
        let s1 := { s1 with calls := s.calls.set k (name ++ ">" ++ other side, "recv") }
        let s1 := { s1 with chunkCalls := if op == "recvchunk" then s.chunkCalls ++ [k] else s.chunkCalls }
        s1.addPredicted rs
      | none => s
    else if op == "isclosed" then
      match s.link? name side with
      | some l => ({ s with calls := s.calls.set k (name ++ ">" ++ side, "isclosed") }).addPredicted [(k, s!"isclosed={if l.st.s.closed.isSome then 1 else 0}")]
      | none => s
    else if op == "close" then
      let s := { s with closedPorts := s.closedPorts ++ [name ++ ">" ++ other side] }
      match s.link? name (other side) with
      | some l =>
        match l.stepL .close with
        | some l' => ({ (s.setLink name (other side) l') with calls := s.calls.set k (name ++ ">" ++ other side, "close") }).addPredicted [(k, "ok")]
        | none => ({ s with calls := s.calls.set k (name ++ ">" ++ other side, "close") }).addPredicted [(k, "ok")]
      | none => s
    else s
  | ["cancel", k] =>
    -- dropping a pending `recv_chunk` abandons a chunked message, whatever the model's state
    let s := match s.calls.get? k with
      | some (key, _) =>
        if s.chunkCalls.contains k then
          match s.links.get? key with
          | some l => { s with links := s.links.set key { l with mAbandoned := true, mPartial := none } }
          | none => s
        else s
      | none => s
    match s.calls.get? k with
    | some (key, role) =>
      match s.links.get? key with
      | some l =>
        if role == "recv" then
          -- a pending receive call is dropped: no model state changes (recv_any/recv_chunk are cancel safe)
          match l.recvCall with
          | some (k', kind) =>
            if k' == k then
              -- dropping a pending `recv_chunk` abandons the chunked message: the caller leaves its
              -- chunk loop (outside the documented protocol; the executable model follows, the
              -- theorems do not cover it)
              let st' := if kind == 1 then { l.st with partialMsg := none } else l.st
              { s with links := s.links.set key { l with recvCall := none, st := st', mPartial := if kind == 1 then none else l.mPartial, mAbandoned := l.mAbandoned || kind == 1 } }
            else s
          | none => s
        else
          match l.prog with
          | some p =>
            if p.k == k then
              match l.stepL .cancel with
              | some l' => { s with links := s.links.set key { l' with prog := none } }
              | none => { s with links := s.links.set key { l with prog := none } }
            else s
          | none => s
      | none => s
    | none => s
  | ["expect-drained"] =>
    -- c01: at this marker every completed send must have been delivered
    s.links.foldl (fun s (key, l) =>
      if l.mDelivered == l.mCompleted || l.mAbandoned then s
      else s.fail "c01" line s!"{key}: completed sends {l.mCompleted.map toHex} but delivered {l.mDelivered.map toHex}") s
  | ["mode", m] => { s with exact := m == "exact" }
  | ["dropall"] => { s with teardown := true }
  | ["window", side, n] => { s with windowOpen := s.windowOpen.set side (n == "inf") }
  | ["release", side, n] => { s with releaseOpen := s.releaseOpen.set side (n == "inf") }
  | "wire" :: side :: rest =>
    match kvGet rest "window" with
    | some n => { s with windowOpen := s.windowOpen.set side (n == "inf") }
    | none => s
  | _ => s

/-- `forward` returned: `forward_eos_after_all` (1) and `forward_close_classified` (3)(4) on the real trace -/
def Sim.fwdOnRet (s : Sim) (line : Nat) (k : String) (res : List String) : Sim :=
  s.fwds.zipIdx.foldl (fun s (x, i) =>
    if x.k != k then s else
    let s := s.updFwd i (fun x => { x with retLine := some line })
    if s.teardown then s else
    match res with
    | "ok" :: _ =>
      -- (the frames it queued may not be on the wire yet: judged when its `SendFinish` appears, see `fwdOnTx`)
      s.updFwd i (fun x => { x with retOk := true })
    | ["err", "send", "err", "closed", g] =>
      match x.closeRx with
      | none => s.fail "c11" line s!"forwarder {k} failed with 'closed' ({g}) but no close notification for {x.dst} was delivered to it"
      | some (graceful, _) =>
        if x.finRx.isNone then
          s.fail "c11" line s!"forwarder {k} failed with 'closed' ({g}) although {x.dst} was only closed gracefully: it must keep relaying what was sent (graceful-close override)"
        else if graceful || g == "gracefully=0" then s
        else s.fail "c11" line s!"forwarder {k} reports {g} but the receiver of {x.dst} was dropped"
    | ["err", "recv"] =>
      s.fail "c11" line s!"forwarder {k} failed with a receive error on a healthy connection"
    | _ => s) s

/-- A call returned in the real system -/
def Sim.onRet (s : Sim) (line : Nat) (k : String) (res : List String) : Sim :=
  let s := { s with seenCalls := s.seenCalls ++ [k] }
  let s := s.pmRet line k res
  let s := s.fwdOnRet line k res
  match s.calls.get? k with
  | none => s
  | some (key, role) =>
    match s.links.get? key with
    | none => s
    | some l =>
      -- c11: a close() that returned is eventually observable at the sending half: once the connection has been
      -- quiescent with every wire open after the call returned, the sender is closed
      let s := if role == "close" && res == ["ok"] && (s.closeOk.get? key).isNone then { s with closeOk := s.closeOk.set key line } else s
      let allOpen := (s.windowOpen.get? "A").getD true && (s.windowOpen.get? "B").getD true &&
                     (s.releaseOpen.get? "A").getD true && (s.releaseOpen.get? "B").getD true
      let s := if role == "isclosed" && res == ["isclosed=0"] && allOpen && !s.teardown then
          match s.closeOk.get? key, s.callLine.get? k with
          | some cl, some ol =>
            if cl < s.lastSettle && s.lastSettle < ol then
              s.fail "c11" line s!"{k} on {key}: the sender is not closed although close() of the receiving half returned (line {cl}) and the connection has been quiescent with all wires open since"
            else s
          | _, _ => s
        else s
      -- real-trace predicate bookkeeping
      let wasPartial := l.mPartial.isSome
      let l := if role == "recv" then l.monRecv res else l
      let completedNow : Option Bytes := if (role == "send" || role == "chunks" || role == "trysend") && res == ["ok"] then s.callData.get? k else none
      let l := match completedNow with
        | some d => { l with mCompleted := l.mCompleted ++ [d] }
        | none => l
      let s := { s with links := s.links.set key l }
      -- a forwarder relays the completed message onto its destination link
      let s := match completedNow, s.fwd.get? key with
        | some d, some dk =>
          match s.links.get? dk with
          | some dl => { s with links := s.links.set dk { dl with mCompleted := dl.mCompleted ++ [d] } }
          | none => s
        | _, _ => s
      -- sends in flight on the source link of a forwarder may already be on their way to the destination
      let srcKey := ((s.fwd.find? (fun (_, d) => d == key)).map (·.1)).getD key
      -- c01: delivered must remain a prefix of completed at all times
      -- (a send completes before its last frame can be delivered, so this holds at every `ret`)
      let inFlight : List Bytes := (s.calls.filter (fun (ck, (lk, r)) => lk == srcKey && r != "recv" && !s.seenCalls.contains ck)).filterMap (fun (ck, _) => s.callData.get? ck)
      let s := if role == "recv" && !l.mAbandoned && !(isPrefix l.mDelivered (l.mCompleted ++ inFlight.take 1)) then
          s.fail "c01" line s!"{key}: delivered {l.mDelivered.map toHex} is not a prefix of the completed sends {l.mCompleted.map toHex}"
        else s
      -- c11: end-of-stream only after every completed send was delivered
      let s := if role == "recv" && res == ["none"] && !wasPartial then
          if l.mDelivered == l.mCompleted || l.mAbandoned then s
          else s.fail "c11" line s!"{key}: end-of-stream reported with completed sends {l.mCompleted.map toHex} but delivered {l.mDelivered.map toHex}"
        else s
      -- c11: classification of send failures, and no new message after the sender learned of the close
      let s := if role == "send" || role == "chunks" || role == "trysend" || role == "pconnect" then
          match res with
          | ["err", "closed", g] =>
            match l.mCloseRx with
            | none => s.fail "c11" line s!"{k} on {key} failed as closed ({g}) but no ReceiveClose/ReceiveFinish was delivered to the sender"
            | some (graceful, _) =>
              if (g == "gracefully=1") == graceful then s
              else s.fail "c11" line s!"{k} on {key} reports {g} but the receiver was {if graceful then "closed (gracefully)" else "dropped"}"
          | ["ok"] =>
            match l.mCloseRx, s.callLine.get? k with
            | some (_, cl), some ol =>
              if ol > cl && role != "trysend" then s.fail "c11" line s!"{k} on {key} was started after the sender learned that the receiver was closed and still succeeded" else s
            | _, _ => s
          | _ => s
        else s
      -- replay: compare with the prediction
      let resText := " ".intercalate res
      let norm := fun (t : String) =>
        if t.startsWith "requests " then
          let n := if t == "requests -" then 0 else ((t.drop 9).toString.splitOn ",").length
          s!"requests-n {n}"
        else if t.startsWith "ok ports=" then "ok-ports"
        else if t.startsWith "ok total=" then "ok-forward" else t
      match s.predicted.get? k with
      | some p =>
        let s := { s with predicted := s.predicted.erase k }
        if p == norm resText then s else s.diff line s!"ret {k}: model predicts '{p}', real '{resText}'"
      | none =>
        if role == "send" || role == "chunks" || role == "recv" || role == "pconnect" || role == "trysend" || role == "forward" then
          s.diff line s!"ret {k}: real returned '{resText}' but the model call is still pending"
        else s

/-- quiescent point: compare pending sets; c03 predicate -/
def Sim.onSettled (s : Sim) (line : Nat) (ws : List String) : Sim :=
  let pend := match kvGet ws "pending" with
    | some "-" => []
    | some t => t.splitOn ","
    | none => []
  -- replay: every predicted result must have been seen, every model-pending call must be pending
  let s := s.predicted.foldl (fun s (k, p) =>
    s.diff line s!"settled: model predicted '{p}' for {k} but the real call is {if pend.contains k then "still pending" else "gone"}") s
  let s := { s with predicted := [] }
  let drained := (s.txCount.get? "A").getD 0 == (s.rxCount.get? "B").getD 0 &&
                 (s.txCount.get? "B").getD 0 == (s.rxCount.get? "A").getD 0
  s.links.foldl (fun s (key, l) =>
    match l.prog with
    | some p =>
      let s := if !pend.contains p.k then s.diff line s!"settled: model has {p.k} pending on {key}, real has not" else s
      s
    | none => s) s
    |> fun s => { s with out := s.out ++ (if drained then [] else []) }

/-- credit probe line: `credits <name> <side> pool=.. used=.. limit=..` -/
def Sim.onCredits (s : Sim) (line : Nat) (ws : List String) (pend : Bool) : Sim :=
  match ws with
  | name :: side :: rest =>
    let s := match s.link? name side, kvNat rest "pool" with
      | some l, some pool =>
        if l.st.s.pool == pool then s
        else s.diff line s!"credits {name}>{side}: model pool {l.st.s.pool} (held {l.st.s.held}), real pool {pool}"
      | _, _ => s
    let s := match s.link? name (other side), kvNat rest "used" with
      | some l, some used =>
        if l.st.r.used == used then s
        else s.diff line s!"credits {name}>{other side}: model used {l.st.r.used}, real used {used}"
      | _, _ => s
    let _ := pend
    s
  | _ => s

/-- c03 at a quiescent point, from real observations only.
(a) a send or port batch is pending although the wires are drained, nothing is buffered at the
    receiver and the port is open;
(b) credit leak: with no operation in progress on the sender and its sink open, the real pool must
    equal `limit − cost put on the wire + credit delivered back`. -/
def Sim.c03AtSettle (s : Sim) (line : Nat) (pend : List String) (creditLines : List (List String)) : Sim :=
  if s.teardown then s else
  let drained := (s.txCount.get? "A").getD 0 == (s.rxCount.get? "B").getD 0 &&
                 (s.txCount.get? "B").getD 0 == (s.rxCount.get? "A").getD 0
  s.links.foldl (fun s (key, l) =>
    match key.splitOn ">" with
    | [name, side] =>
      let poolReal := (creditLines.find? (fun ws => ws.take 2 == [name, side])).bind (fun ws => kvNat ws "pool")
      let usedReal := (creditLines.find? (fun ws => ws.take 2 == [name, other side])).bind (fun ws => kvNat ws "used")
      let windowOpen := (s.windowOpen.get? "A").getD true && (s.windowOpen.get? "B").getD true
      let pendingHere := s.calls.filter (fun (ck, (lk, r)) => lk == key && r != "recv" && r != "close" && pend.contains ck)
      -- the receiver keeps receiving: one of its receive calls is pending (it is waiting for more)
      let receiving := s.calls.any (fun (ck, (lk, r)) => lk == key && r == "recv" && pend.contains ck)
      -- (c) credits consumed by the receiver but neither still buffered nor granted back must stay
      -- below the return threshold while the receiver is waiting in a receive call on a healthy,
      -- drained connection (otherwise they are lost: nothing will ever return them)
      let s := match usedReal with
        | some used =>
          let withheld := l.mCostRx - used - l.mGrantedTx
          if drained && windowOpen && receiving && !s.closedPorts.contains key && withheld ≥ threshold l.cfg.limit then
            s.fail "c03" line s!"credit leak on {key}: the receiver has consumed {l.mCostRx - used} credits, granted back {l.mGrantedTx} and withholds {withheld} (return threshold {threshold l.cfg.limit}) although it is waiting for more data"
          else s
        | none => s
      match pendingHere with
      | (ck, (_, role)) :: _ =>
        match poolReal, usedReal with
        | some pool, some used =>
          if drained && windowOpen && receiving && used == 0 && !s.closedPorts.contains key then
            let need := if role == "pconnect" then 4 else 1
            if pool ≥ need then
              s.fail "c03" line s!"{ck} on {key} is pending at quiescence although {pool} credits are available (lost wake-up)"
            else
              s.fail "c03" line s!"{ck} on {key} is pending at quiescence: the receiver has consumed everything and the wires are drained, yet only {pool} credits are available (credit leak)"
          else s
        | _, _ => s
      | [] =>
        -- (the sends of a forwarder are not script calls: its destination link has no quiescent "idle" state)
        if s.fwd.any (fun (_, d) => d == key) then s else
        match poolReal with
        | some pool =>
          if windowOpen && pool + l.mOutstanding != l.cfg.limit + l.mGrantedRx then
            s.fail "c03" line s!"credit leak on {key}: no operation in progress, pool {pool}, but limit {l.cfg.limit} - cost sent {l.mOutstanding} + credit delivered back {l.mGrantedRx} = {l.cfg.limit + l.mGrantedRx - l.mOutstanding}"
          else s
        | none => s
    | _ => s) s

/-- `forward_close_propagates` on the real trace: at a quiescent point with drained, open wires a forwarder that
is between two messages and was told that its destination closed has closed its source port -/
def Sim.fwdAtSettle (s : Sim) (line : Nat) (creditLines : List (List String)) : Sim :=
  if s.teardown then s else
  let drained := (s.txCount.get? "A").getD 0 == (s.rxCount.get? "B").getD 0 &&
                 (s.txCount.get? "B").getD 0 == (s.rxCount.get? "A").getD 0
  let allOpen := (s.windowOpen.get? "A").getD true && (s.windowOpen.get? "B").getD true &&
                 (s.releaseOpen.get? "A").getD true && (s.releaseOpen.get? "B").getD true
  if !(drained && allOpen) then s else
  s.fwds.foldl (fun s x =>
    match x.closeRx with
    | some (_, cl) =>
      -- (a forwarder holding a message it cannot send for lack of credits is not in its `select!`: require
      -- that its sender has credits for any frame)
      let pool := match x.dst.splitOn ">" with
        | [name, side] => (creditLines.find? (fun (ws : List String) => ws.take 2 == [name, side])).bind (fun ws => kvNat ws "pool")
        | _ => none
      if x.closeTx.isNone && x.retLine.isNone && x.looksIdle && (pool.getD 0) ≥ 4 then
        s.fail "c11" line s!"forwarder {x.k}: a close notification for {x.dst} was delivered (line {cl}) and the forwarder is between two messages, yet it has not closed its source port {x.src}: the close does not reach the origin"
      else s
    | none => s) s
  |> fun s =>
  -- a forwarder that still holds a received message and whose destination receiver was dropped cannot deliver it:
  -- its send fails, `forward` returns, and the drop of its ports tells the origin
  s.fwds.foldl (fun s x =>
    match x.finRx with
    | some fl =>
      if x.retLine.isSome || x.allRelayed then s else
      match x.closeRx with
      | some (true, cl) =>
        s.fail "c11" line s!"forwarder {x.k} has not returned although its destination receiver ({x.dst}) was dropped (line {fl}) after a graceful close (line {cl}) while it still holds a received message: its send waits for credits forever and the drop never reaches the origin"
      | _ =>
        s.fail "c11" line s!"forwarder {x.k} has not returned although its destination receiver ({x.dst}) was dropped (line {fl}) while it still holds a received message"
    | none => s) s

structure RunAcc where
  sim : Sim := {}
  creditLines : List (List String) := []
  total : Nat := 0
  traces : Nat := 0
  anyOut : Bool := false

def finishTrace (s : Sim) : IO Unit := do
  if s.name != "" then
    for l in s.out do IO.println l
    let b := fun (x : Bool) => if x then "ok" else "FAIL"
    IO.println s!"END {s.name} events={s.events} replay={if s.replayOk then "ok" else "mismatch"} c01={b s.c01} c02={b s.c02} c03={b s.c03} c11={b s.c11} c05={b s.c05}"

def stepLine (a : RunAcc) (n : Nat) (line : String) : IO RunAcc := do
  let ws := words line
  let s := { a.sim with events := a.sim.events + 1 }
  match ws with
  | ["trace", name] =>
    finishTrace a.sim
    return { a with sim := { name := name }, creditLines := [], traces := a.traces + 1 }
  | "cfg" :: side :: rest =>
    let c : SideCfg := { chunk := (kvNat rest "chunk").getD 0, buf := (kvNat rest "buf").getD 0,
                         maxData := (kvNat rest "maxdata").getD 0, maxPorts := (kvNat rest "maxports").getD 0,
                         sq := (kvNat rest "sq").getD 16 }
    return { a with sim := { s with cfgs := s.cfgs.set side c } }
  | "port" :: name :: side :: rest =>
    match kvNat rest "local" with
    | some lp => return { a with sim := s.onPort name side lp }
    | none => return { a with sim := s }
  | "op" :: rest => return { a with sim := s.onOp n rest, creditLines := [] }
  | "opd" :: rest => return { a with sim := s.onOp n rest, creditLines := [] }
  | ["tx", side, hx] => return { a with sim := s.onWire n true side hx }
  | ["rx", side, hx] => return { a with sim := (s.onWire n false side hx).runAllFwd }
  | ["apiid", port, id] =>
    match port.toNat?, id.toNat? with
    | some p, some i => return { a with sim := { s with pm := { s.pm with apiId := s.pm.apiId ++ [(p, i)] } } }
    | _, _ => return { a with sim := s }
  | "ret" :: k :: res => return { a with sim := s.onRet n k res }
  | "credits" :: rest =>
    return { a with sim := s.onCredits n rest false, creditLines := a.creditLines ++ [rest] }
  | "settled" :: rest =>
    let pend := match kvGet rest "pending" with
      | some "-" => []
      | some t => t.splitOn ","
      | none => []
    let s := s.onSettled n rest
    let s := s.c03AtSettle n pend a.creditLines
    let s := s.fwdAtSettle n a.creditLines
    -- (a quiescent point counts only if every wire was open)
    let s := if (s.windowOpen.get? "A").getD true && (s.windowOpen.get? "B").getD true &&
                (s.releaseOpen.get? "A").getD true && (s.releaseOpen.get? "B").getD true then { s with lastSettle := n } else s
    return { a with sim := s, creditLines := [] }
  | "run" :: x :: res =>
    -- no fault is injected in these modes and both endpoints are real: a dispatcher that ends with an
    -- error turns an ordinary close/drop into 'connection failed' for every port
    if res == ["ok"] then return { a with sim := s } else
    return { a with sim := s.fail "c11" n s!"dispatcher {x} ended with '{" ".intercalate res}' on a healthy transport with a conforming peer: every port of the connection now reports 'connection failed' instead of the condition that occurred" }
  | "livelock" :: _ => return { a with sim := s.fail "c03" n "livelock: the transport frame budget was exhausted (an operation emits frames forever)" }
  | "panic" :: rest => return { a with sim := (s.fail "c01" n ("panic " ++ " ".intercalate rest)) }
  | _ => return { a with sim := s }

def main : IO Unit := do
  let stdin ← IO.getStdin
  lineLoop stdin ({} : RunAcc) 1 stepLine (fun a => do
    finishTrace a.sim
    IO.println s!"DONE traces={a.traces}")
