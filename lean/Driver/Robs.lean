import RemocModel.Robs.Vec
import RemocModel.Robs.VecDeque
import RemocModel.Robs.HashMap
import RemocModel.Robs.HashSet
import RemocModel.Robs.List
import RemocModel.Robs.Errors
import Driver.Util
/-
Driver for the C13 correspondence (and, with `c14` cases, C14; see `Driver/RobsFaults.lean`): reads
the traces of the `robs` harness (real observable collections, subscriptions, mirrors) and per case

 (a) runs the model on the same calls: after every call the model's verdict on panicking, the events
     `apply` emits and the contents must coincide with what the real collection did (`DIFF`); for every
     subscription the `recv` results and the mirror state must be what the model computes (`DIFF`);
     output of the hash containers is compared per call as a multiset (iteration order is not part of
     the contract);
 (b) evaluates the property predicate on the real data alone (`FAIL`): final mirror contents = final
     collection contents, mirror `done` ⇔ collection done, mirror `complete`, no error; the real `recv`
     results folded by hand with `handle_event` give the final contents and contain `Done` iff the
     collection was marked done.  A `FAIL` carries `cause=`: when the model (code as pinned) predicts
     exactly the observed divergence the cause names the violated hypothesis of the theorem
     (`retain-mutation` = F4, `incremental-after-done` = F13), otherwise `unexplained`.

Output: `DIFF <case> <what>`, `FAIL <case> <coll> <what> cause=<…>`, `END <case> calls=<n> subs=<n> diffs=<n> fails=<n>`.
-/
open Driver
open Remoc.Robs

namespace RobsDriver

/-- The variant of the mirror task that the current tree is expected to match: `.fixed` since the
repair of finding F13 in /repo (be944ac); the behaviour of `.pinned` is then a regression. -/
def codeVariant : Remoc.Robs.Variant := .fixed

/-- text interface of one collection model -/
structure Codec (S : Sys) where
  name : String
  parseC : String → Option S.C
  showC : S.C → String
  parseOp : List String → Option S.Op
  parseEv : List String → Option S.Ev
  showEv : S.Ev → String
  /-- output order of the real container is arbitrary: compare per call as multisets -/
  hashed : Bool
  /-- element stream of an incremental subscription in the model's order -/
  incrEvents : S.C → List S.Ev
  /-- the call violates a hypothesis of the mirror theorem (finding F4) -/
  bad : S.Op → Bool

def optNat (s : String) : Option (Option Nat) :=
  if s == "-" then some none else s.toNat?.map some

def parsePairs (s : String) : Option (List (Nat × Nat)) :=
  if s == "-" then some [] else
  (s.splitOn ",").mapM (fun p =>
    match p.splitOn ":" with
    | [a, b] => do some ((← a.toNat?), (← b.toNat?))
    | _ => none)

def showPairs (l : List (Nat × Nat)) : String :=
  if l.isEmpty then "-" else ",".intercalate (l.map (fun p => s!"{p.1}:{p.2}"))

def parseMask (s : String) : Option (List Bool) :=
  if s == "-" then some [] else (s.splitOn ",").mapM parseBool

/-! ### vector -/

def vecCodec : Codec Vec.sys where
  name := "vec"
  parseC := parseNatList
  showC := showNatList
  parseOp := fun
    | ["push", x] => do some (.push (← x.toNat?))
    | ["pop"] => some .pop
    | ["get_mut", i, w] => do some (.getMut (← i.toNat?) (← optNat w))
    | ["iter_mut", ws] => do some (.iterMut (← parsePairs ws))
    | ["insert", i, x] => do some (.insert (← i.toNat?) (← x.toNat?))
    | ["remove", i] => do some (.remove (← i.toNat?))
    | ["swap_remove", i] => do some (.swapRemove (← i.toNat?))
    | ["fill", x] => do some (.fill (← x.toNat?))
    | ["resize", n, x] => do some (.resize (← n.toNat?) (← x.toNat?))
    | ["truncate", n] => do some (.truncate (← n.toNat?))
    | ["clear"] => some .clear
    | ["retain", m] => do some (.retain (← parseMask m))
    | ["shrink_to_fit"] => some .shrinkToFit
    | ["extend", xs] => do some (.extend (← parseNatList xs))
    | _ => none
  parseEv := fun
    | ["Push", x] => do some (.push (← x.toNat?))
    | ["Pop"] => some .pop
    | ["Insert", i, x] => do some (.insert (← i.toNat?) (← x.toNat?))
    | ["Set", i, x] => do some (.set (← i.toNat?) (← x.toNat?))
    | ["Remove", i] => do some (.remove (← i.toNat?))
    | ["SwapRemove", i] => do some (.swapRemove (← i.toNat?))
    | ["Fill", x] => do some (.fill (← x.toNat?))
    | ["Resize", n, x] => do some (.resize (← n.toNat?) (← x.toNat?))
    | ["Truncate", n] => do some (.truncate (← n.toNat?))
    | ["Retain", s] => do some (.retain (← parseNatList s))
    | ["RetainNot", s] => do some (.retainNot (← parseNatList s))
    | ["Clear"] => some .clear
    | ["ShrinkToFit"] => some .shrinkToFit
    | _ => none
  showEv := fun
    | .push x => s!"Push {x}"
    | .pop => "Pop"
    | .insert i x => s!"Insert {i} {x}"
    | .set i x => s!"Set {i} {x}"
    | .remove i => s!"Remove {i}"
    | .swapRemove i => s!"SwapRemove {i}"
    | .fill x => s!"Fill {x}"
    | .resize n x => s!"Resize {n} {x}"
    | .truncate n => s!"Truncate {n}"
    | .retain s => s!"Retain {showNatList s}"
    | .retainNot s => s!"RetainNot {showNatList s}"
    | .clear => "Clear"
    | .shrinkToFit => "ShrinkToFit"
  hashed := false
  incrEvents := fun c => c.map Vec.Ev.push
  bad := fun _ => false

/-! ### deque -/

def dequeCodec : Codec VecDeque.sys where
  name := "deque"
  parseC := parseNatList
  showC := showNatList
  parseOp := fun
    | ["push_back", x] => do some (.pushBack (← x.toNat?))
    | ["push_front", x] => do some (.pushFront (← x.toNat?))
    | ["pop_back"] => some .popBack
    | ["pop_front"] => some .popFront
    | ["get_mut", i, w] => do some (.getMut (← i.toNat?) (← optNat w))
    | ["iter_mut", ws] => do some (.iterMut (← parsePairs ws))
    | ["insert", i, x] => do some (.insert (← i.toNat?) (← x.toNat?))
    | ["remove", i] => do some (.remove (← i.toNat?))
    | ["swap_remove_back", i] => do some (.swapRemoveBack (← i.toNat?))
    | ["swap_remove_front", i] => do some (.swapRemoveFront (← i.toNat?))
    | ["resize", n, x] => do some (.resize (← n.toNat?) (← x.toNat?))
    | ["truncate", n] => do some (.truncate (← n.toNat?))
    | ["clear"] => some .clear
    | ["retain", m] => do some (.retain (← parseMask m))
    | ["shrink_to_fit"] => some .shrinkToFit
    | ["extend", xs] => do some (.extend (← parseNatList xs))
    | _ => none
  parseEv := fun
    | ["PushBack", x] => do some (.pushBack (← x.toNat?))
    | ["PushFront", x] => do some (.pushFront (← x.toNat?))
    | ["PopBack"] => some .popBack
    | ["PopFront"] => some .popFront
    | ["Insert", i, x] => do some (.insert (← i.toNat?) (← x.toNat?))
    | ["Set", i, x] => do some (.set (← i.toNat?) (← x.toNat?))
    | ["Remove", i] => do some (.remove (← i.toNat?))
    | ["SwapRemoveBack", i] => do some (.swapRemoveBack (← i.toNat?))
    | ["SwapRemoveFront", i] => do some (.swapRemoveFront (← i.toNat?))
    | ["Resize", n, x] => do some (.resize (← n.toNat?) (← x.toNat?))
    | ["Truncate", n] => do some (.truncate (← n.toNat?))
    | ["Retain", s] => do some (.retain (← parseNatList s))
    | ["RetainNot", s] => do some (.retainNot (← parseNatList s))
    | ["Clear"] => some .clear
    | ["ShrinkToFit"] => some .shrinkToFit
    | _ => none
  showEv := fun
    | .pushBack x => s!"PushBack {x}"
    | .pushFront x => s!"PushFront {x}"
    | .popBack => "PopBack"
    | .popFront => "PopFront"
    | .insert i x => s!"Insert {i} {x}"
    | .set i x => s!"Set {i} {x}"
    | .remove i => s!"Remove {i}"
    | .swapRemoveBack i => s!"SwapRemoveBack {i}"
    | .swapRemoveFront i => s!"SwapRemoveFront {i}"
    | .resize n x => s!"Resize {n} {x}"
    | .truncate n => s!"Truncate {n}"
    | .retain s => s!"Retain {showNatList s}"
    | .retainNot s => s!"RetainNot {showNatList s}"
    | .clear => "Clear"
    | .shrinkToFit => "ShrinkToFit"
  hashed := false
  incrEvents := fun c => c.map VecDeque.Ev.pushBack
  bad := fun _ => false

/-! ### hash map -/

def parseVisits (s : String) : Option (List (Nat × Option Nat × Bool)) :=
  if s == "-" then some [] else
  (s.splitOn ",").mapM (fun p =>
    match p.splitOn ":" with
    | [k, w, b] => do some ((← k.toNat?), (← optNat w), (← parseBool b))
    | _ => none)

def mapCodec : Codec HashMap.sys where
  name := "map"
  parseC := fun s => (parsePairs s).map aofList
  showC := showPairs
  parseOp := fun
    | ["insert", k, v] => do some (.insert (← k.toNat?) (← v.toNat?))
    | ["remove", k] => do some (.remove (← k.toNat?))
    | ["clear"] => some .clear
    | ["retain", vs] => do some (.retain (← parseVisits vs))
    | ["entry_insert", k, v] => do some (.entryInsert (← k.toNat?) (← v.toNat?))
    | ["entry_remove", k, _] => do some (.entryRemove (← k.toNat?))
    | ["entry_or_insert", k, d, w, _] => do some (.entryOrInsert (← k.toNat?) (← d.toNat?) (← optNat w))
    | ["entry_and_modify", k, v, d] => do some (.entryAndModify (← k.toNat?) (← v.toNat?) (← optNat d))
    | ["entry_get_mut", k, w, _] => do some (.entryGetMut (← k.toNat?) (← optNat w))
    | ["get_mut", k, w] => do some (.getMut (← k.toNat?) (← optNat w))
    | ["iter_mut", ws] => do some (.iterMut (← parsePairs ws))
    | ["shrink_to_fit"] => some .shrinkToFit
    | ["extend", kvs] => do some (.extend (← parsePairs kvs))
    | _ => none
  parseEv := fun
    | ["Set", k, v] => do some (.set (← k.toNat?) (← v.toNat?))
    | ["Remove", k] => do some (.remove (← k.toNat?))
    | ["Clear"] => some .clear
    | ["ShrinkToFit"] => some .shrinkToFit
    | _ => none
  showEv := fun
    | .set k v => s!"Set {k} {v}"
    | .remove k => s!"Remove {k}"
    | .clear => "Clear"
    | .shrinkToFit => "ShrinkToFit"
  hashed := true
  incrEvents := fun c => c.map (fun kv => HashMap.Ev.set kv.1 kv.2)
  bad := fun op => !decide (HashMap.good op)

/-! ### hash set -/

def parseSetVisits (s : String) : Option (List (Nat × Bool)) :=
  if s == "-" then some [] else
  (s.splitOn ",").mapM (fun p =>
    match p.splitOn ":" with
    | [k, b] => do some ((← k.toNat?), (← parseBool b))
    | _ => none)

def setCodec : Codec HashSet.sys where
  name := "set"
  parseC := fun s => (parseNatList s).map HashSet.ofList
  showC := fun c => showNatList (HashSet.elems c)
  parseOp := fun
    | ["insert", x] => do some (.insert (← x.toNat?))
    | ["replace", x] => do some (.replace (← x.toNat?))
    | ["remove", x] => do some (.remove (← x.toNat?))
    | ["take", x] => do some (.take (← x.toNat?))
    | ["clear"] => some .clear
    | ["retain", vs] => do some (.retain (← parseSetVisits vs))
    | ["shrink_to_fit"] => some .shrinkToFit
    | ["extend", xs] => do some (.extend (← parseNatList xs))
    | _ => none
  parseEv := fun
    | ["Set", x] => do some (.set (← x.toNat?))
    | ["Remove", x] => do some (.remove (← x.toNat?))
    | ["Clear"] => some .clear
    | ["ShrinkToFit"] => some .shrinkToFit
    | _ => none
  showEv := fun
    | .set x => s!"Set {x}"
    | .remove x => s!"Remove {x}"
    | .clear => "Clear"
    | .shrinkToFit => "ShrinkToFit"
  hashed := true
  incrEvents := fun c => c.map (fun kv => HashSet.Ev.set kv.1)
  bad := fun _ => false

/-! ### list -/

def listCodec : Codec OList.sys where
  name := "list"
  parseC := parseNatList
  showC := showNatList
  parseOp := fun
    | ["push", x] => do some (.push (← x.toNat?))
    | ["extend", xs] => do some (.extend (← parseNatList xs))
    | _ => none
  parseEv := fun
    | ["Push", x] => do some (.push (← x.toNat?))
    | _ => none
  showEv := fun
    | .push x => s!"Push {x}"
  hashed := false
  incrEvents := fun c => c.map OList.Ev.push
  bad := fun _ => false

/-! ### generic case checker -/

variable {S : Sys}

def showEvent (cd : Codec S) : Event S.Ev → String
  | .change e => cd.showEv e
  | .done => "Done"
  | .initialComplete => "InitialComplete"

def parseEvent (cd : Codec S) (ws : List String) : Option (Event S.Ev) :=
  match ws with
  | ["Done"] => some .done
  | ["InitialComplete"] => some .initialComplete
  | _ => (cd.parseEv ws).map .change

def showErr : Err → String
  | .closed => "Closed"
  | .lagged => "Lagged"
  | .maxSizeExceeded n => s!"MaxSizeExceeded({n})"
  | .remoteReceive => "RemoteReceive"
  | .remoteConnect => "RemoteConnect"
  | .remoteListen => "RemoteListen"
  | .invalidIndex i => s!"InvalidIndex({i})"

def parseErr (s : String) : Option Err :=
  if s == "Closed" then some .closed
  else if s == "Lagged" then some .lagged
  else if s == "RemoteReceive" then some .remoteReceive
  else if s == "RemoteConnect" then some .remoteConnect
  else if s == "RemoteListen" then some .remoteListen
  else if s.startsWith "MaxSizeExceeded(" then
    ((s.drop 16).dropEnd 1).toString.toNat?.map .maxSizeExceeded
  else if s.startsWith "InvalidIndex(" then
    ((s.drop 13).dropEnd 1).toString.toNat?.map .invalidIndex
  else none

def showOptErr : Option Err → String
  | none => "-"
  | some e => showErr e

def sortStrs (l : List String) : List String := l.mergeSort (fun a b => a < b || a == b)

structure SubInfo (S : Sys) where
  sid : String
  k : Nat
  incr : Bool
  mirror : Bool
  obsAt : Obs S.C
  buf : Nat := 1000000
  max : Nat := 1000000
  /-- subscription obtained from the mirror with this sid (`Mirrored*::subscribe`); `obsAt` then is the
  model's state of that mirror at subscription time -/
  src : Option String := none
  /-- subscription point of the first subscription in the chain (to the collection itself) -/
  rootK : Nat := 0
  /-- taken from a mirror that may not have caught up: only the property predicate is checked -/
  race : Bool := false
  remote : Bool := false
  /-- the source mirror was built from an incremental subscription -/
  srcIncr : Bool := false

structure CaseSt (S : Sys) where
  id : String
  obs : Obs S.C
  /-- model events per executed call -/
  groups : Array (List (Event S.Ev)) := #[]
  /-- calls executed so far that violate a theorem hypothesis (index) -/
  badCalls : List Nat := []
  subs : List (SubInfo S) := []
  -- the call being checked
  curEvents : List String := []
  curExpect : Option (Obs S.C × List (Event S.Ev) × Bool) := none
  -- real data
  realFinal : Option (S.C × Bool) := none
  initials : List (String × String) := []
  recvs : List (String × String) := []        -- (sid, token text), in order
  mirrors : List (String × String × String × String × String) := []
  diffs : Nat := 0
  fails : Nat := 0
  out : Array String := #[]

def CaseSt.diff (st : CaseSt S) (what : String) : CaseSt S :=
  { st with diffs := st.diffs + 1, out := st.out.push s!"DIFF {st.id} {what}" }

def CaseSt.fail (st : CaseSt S) (coll what cause : String) : CaseSt S :=
  { st with fails := st.fails + 1, out := st.out.push s!"FAIL {st.id} {coll} {what} cause={cause}" }

/-- compare event texts; for hash containers as multisets -/
def sameEvents (hashed : Bool) (a b : List String) : Bool :=
  if hashed then sortStrs a == sortStrs b else a == b

def feedLine (cd : Codec S) (st : CaseSt S) (line : String) : CaseSt S :=
  let ws := words line
  match ws with
  | "init" :: [c] =>
    match cd.parseC c with
    | some c => { st with obs := ⟨c, false⟩, realFinal := some (c, false) }
    | none => st.diff s!"unparsable init {c}"
  | "sub" :: sid :: mode :: place :: kind :: rest =>
    let getOpt (key : String) (dflt : Nat) : Nat :=
      match rest.find? (·.startsWith (key ++ "=")) with
      | some t => ((t.drop (key.length + 1)).toString.toNat?).getD dflt
      | none => dflt
    let src := (rest.find? (·.startsWith "src=")).map (fun t => (t.drop 4).toString)
    let k := st.groups.size
    let srcIncr := match src.bind (fun id => st.subs.find? (·.sid == id)) with
      | some s0 => s0.incr
      | none => false
    let (obsAt, rootK) : Obs S.C × Nat :=
      match src.bind (fun id => st.subs.find? (·.sid == id)) with
      | none => (st.obs, k)
      | some s0 =>
        let sub0 : Sub S := ⟨if s0.incr then .incremental else .snapshot, s0.obsAt.v, cd.incrEvents s0.obsAt.v, s0.obsAt.done⟩
        let t0 := S.taskRun codeVariant (sub0.mirrorInit s0.max) (sub0.stream (st.groups.toList.drop s0.k).flatten)
        (⟨t0.m.v, t0.m.done⟩, s0.rootK)
    { st with subs := st.subs ++ [{ sid, k, incr := mode == "incr", mirror := kind == "mirror",
                                    obsAt, buf := getOpt "buf" 1000000, max := getOpt "max" 1000000, src, rootK,
                                    race := rest.contains "race", remote := place == "remote", srcIncr }] }
  | "op" :: rest =>
    let call : Option (Call S.Op) :=
      if rest == ["done"] then some .done else (cd.parseOp rest).map .op
    match call with
    | none => st.diff s!"unparsable op {" ".intercalate rest}"
    | some call =>
      let r := S.step st.obs call
      let isBad := match call with | .op o => cd.bad o && !st.obs.done | .done => false
      { st with curExpect := some (r.1, r.2, S.stepPanics st.obs call), curEvents := [],
                badCalls := if isBad then st.badCalls ++ [st.groups.size] else st.badCalls }
  | ["res", r] =>
    match st.curExpect with
    | some (_, _, p) =>
      if (r == "panic") == p then st else st.diff s!"call {st.groups.size}: real {r}, model panics={p}"
    | none => st
  | "ev" :: rest => { st with curEvents := st.curEvents ++ [" ".intercalate rest] }
  | ["state", c, d] =>
    match st.curExpect, cd.parseC c, parseBool d with
    | some (o', evs, _), some rc, some rd =>
      let mevs := evs.map (showEvent cd)
      let st := if sameEvents cd.hashed mevs st.curEvents then st
                else st.diff s!"call {st.groups.size}: events real [{"; ".intercalate st.curEvents}] model [{"; ".intercalate mevs}]"
      let st := if cd.showC o'.v == cd.showC rc && o'.done == rd then st
                else st.diff s!"call {st.groups.size}: state real {c} {d} model {cd.showC o'.v} {showBool o'.done}"
      -- history: what the real collection sent (so that later checks are about the real events);
      -- state: the real one (no cascade after a disagreement)
      let realEvs := (st.curEvents.filterMap (fun t => parseEvent cd (words t)))
      let hist := if realEvs.length == st.curEvents.length then realEvs else evs
      { st with groups := st.groups.push hist, obs := ⟨rc, rd⟩, curExpect := none, curEvents := [],
                realFinal := some (rc, rd) }
    | _, _, _ => st.diff s!"unparsable state line {line}"
  | ["initial", sid, c] => { st with initials := st.initials ++ [(sid, c)] }
  | "recv" :: sid :: rest => { st with recvs := st.recvs ++ [(sid, " ".intercalate rest)] }
  | ["mirror", sid, c, complete, done, err] =>
    { st with mirrors := st.mirrors ++ [(sid, c, (complete.drop 9).toString, (done.drop 5).toString, (err.drop 4).toString)] }
  | "crash" :: rest => st.diff s!"harness crash {" ".intercalate rest}"
  | _ => st

/-- split `l` into consecutive segments of the given lengths (the rest is the last segment) -/
def splitBy {α : Type} : List Nat → List α → List (List α)
  | [], l => [l]
  | n :: ns, l => l.take n :: splitBy ns (l.drop n)

/-- the hypotheses of the mirror theorem that this subscription violates -/
def causes (_cd : Codec S) (st : CaseSt S) (s : SubInfo S) (mirrorTask : Bool) : List String :=
  (if st.badCalls.any (fun i => s.rootK ≤ i) then ["retain-mutation"] else []) ++
  (if mirrorTask && s.incr && s.obsAt.done && S.inheritDone && (match codeVariant with | .pinned => true | _ => false)
    then ["incremental-after-done"] else [])

/-- finding F14: a remote subscriber of a mirror that is still receiving its incremental initial value is
closed when the mirror forwards the unserializable `InitialComplete` -/
def f14 (s : SubInfo S) (err : String) : Bool :=
  s.race && s.remote && s.srcIncr && (err == "Closed" || err == "err:Closed")

def causeText (cs : List String) (modelAgrees : Bool) : String :=
  if !modelAgrees then "unexplained"
  else if cs.isEmpty then "unexplained-model-agrees" else "+".intercalate cs

def checkSub (cd : Codec S) (st : CaseSt S) (s : SubInfo S) : CaseSt S :=
  let later : List (Event S.Ev) := (st.groups.toList.drop s.k).flatten
  let sub : Sub S := ⟨if s.incr then .incremental else .snapshot, s.obsAt.v, cd.incrEvents s.obsAt.v, s.obsAt.done⟩
  let stream := sub.stream later
  let (fc, fd) := match st.realFinal with
    | some (c, d) => (cd.showC c, d)
    | none => ("?", false)
  if s.mirror then
    match st.mirrors.find? (·.1 == s.sid) with
    | none => st.diff s!"sub {s.sid}: no mirror line"
    | some (_, c, complete, done, err) =>
      let showT (t : Remoc.Robs.Task S.C) : String :=
        if t.m.error.isSome then s!"{cd.showC t.m.v} ? ? {showOptErr t.m.error}"
        else s!"{cd.showC t.m.v} {showBool t.m.complete} {showBool t.m.done} -"
      let real := s!"{c} {complete} {done} {err}"
      -- hash containers stream the initial elements in an arbitrary order; the final state does not depend on
      -- it except when the task stops early (F13): try every element as the first one
      let firsts : List (List S.Ev) :=
        if cd.hashed && s.incr then
          let es := cd.incrEvents s.obsAt.v
          es :: (List.range es.length).map (fun i => (es.drop i).take 1 ++ es.take i ++ es.drop (i + 1))
        else [cd.incrEvents s.obsAt.v]
      let streams := firsts.map (fun es => (Sub.stream { sub with initEvents := es } later))
      let tps := streams.map (fun str => S.taskRun codeVariant (sub.mirrorInit s.max) str)
      let tp := (tps.find? (fun t => showT t == real)).getD (S.taskRun codeVariant (sub.mirrorInit s.max) stream)
      -- the task as coded before the repair of F13 (stops after the first initial element)
      let tos := streams.map (fun str => S.taskRun .pinned (sub.mirrorInit s.max) str)
      let told := (tos.find? (fun t => showT t == real)).getD (S.taskRun .pinned (sub.mirrorInit s.max) stream)
      let agrees := showT tp == real || s.race
      let st := if agrees then st
        else if showT told == real then st.diff s!"sub {s.sid} (k={s.k} {if s.incr then "incr" else "snap"}): mirror behaves like the task before the repair of F13: real [{real}] model [{showT tp}]"
        else st.diff s!"sub {s.sid} (k={s.k} {if s.incr then "incr" else "snap"}): mirror real [{real}] model [{showT tp}]"
      -- property predicate on the real data
      let cs := if f14 s err then "remote-sub-of-incomplete-mirror" else causeText (causes cd st s true) agrees
      let st := if c == fc then st else st.fail cd.name s!"mirror-contents-differ sub={s.sid} mirror={c} collection={fc}" cs
      let st := if err == "-" then st else st.fail cd.name s!"mirror-error sub={s.sid} err={err}" cs
      let st := if err != "-" || done == showBool fd then st else st.fail cd.name s!"mirror-done-flag sub={s.sid} mirror={done} collection={showBool fd}" cs
      let st := if err != "-" || complete == "1" then st else st.fail cd.name s!"mirror-not-complete sub={s.sid}" cs
      st
  else
    let real := (st.recvs.filter (·.1 == s.sid)).map (·.2)
    -- (a) model comparison
    let mtoks := stream.map (fun r => match r with
      | .ev e => showEvent cd e
      | .err x => s!"err:{showErr x}"
      | .eof => "eof")
    let tail := if stream.any (fun r => match r with | .ev .done => true | _ => false) then "eof" else "pending"
    let initLen := if s.incr then (cd.incrEvents s.obsAt.v).length else 0
    let segLens : List Nat := (if s.incr then [initLen, 1] else []) ++
      (if s.obsAt.done then [] else (st.groups.toList.drop s.k).map List.length)
    let eq :=
      if cd.hashed then
        (splitBy segLens (mtoks ++ [tail])).map sortStrs == (splitBy segLens real).map sortStrs
      else mtoks ++ [tail] == real
    let eq := eq || s.race
    let st := if eq then st
      else st.diff s!"sub {s.sid} (k={s.k} {if s.incr then "incr" else "snap"}): recv real [{"; ".intercalate real}] model [{"; ".intercalate (mtoks ++ [tail])}]"
    let st := if s.incr then st else
      match st.initials.find? (·.1 == s.sid) with
      | some (_, c) => if c == cd.showC s.obsAt.v || s.race then st else st.diff s!"sub {s.sid}: initial real {c} model {cd.showC s.obsAt.v}"
      | none => st.diff s!"sub {s.sid}: no initial line"
    -- (b) fold the real results by hand
    let start : Option S.C := if s.incr then some S.empty else
      (st.initials.find? (·.1 == s.sid)).bind (fun p => cd.parseC p.2)
    match start with
    | none => st.diff s!"sub {s.sid}: unparsable initial"
    | some c0 =>
      let m0 : Inner S.C := { v := c0, complete := !s.incr, done := false, error := none, maxSize := 1000000 }
      let (m, bad) := real.foldl (fun (acc : Inner S.C × List String) tok =>
        if tok == "eof" || tok == "pending" then acc
        else match parseEvent cd (words tok) with
          | some e =>
            let r := S.handle acc.1 e
            (r.1, if r.2.isSome then acc.2 ++ [s!"{tok} -> {showOptErr r.2}"] else acc.2)
          | none => (acc.1, acc.2 ++ [tok])) (m0, [])
      let cs := if f14 s (real.getLast?.getD "") then "remote-sub-of-incomplete-mirror" else causeText (causes cd st s false) eq
      let st := if bad.isEmpty then st else st.fail cd.name s!"recv-error-or-inapplicable-event sub={s.sid} {"; ".intercalate bad}" cs
      let st := if cd.showC m.v == fc then st else st.fail cd.name s!"hand-fold-differs sub={s.sid} folded={cd.showC m.v} collection={fc}" cs
      let st := if m.done == fd then st else st.fail cd.name s!"hand-done-flag sub={s.sid} sawDone={showBool m.done} collection={showBool fd}" cs
      let st := if m.complete then st else st.fail cd.name s!"hand-no-InitialComplete sub={s.sid}" cs
      st

def runCase (cd : Codec S) (id : String) (lines : List String) : List String :=
  let st0 : CaseSt S := { id, obs := ⟨S.empty, false⟩ }
  let st := lines.foldl (feedLine cd) st0
  let st := st.subs.foldl (checkSub cd) st
  st.out.toList ++ [s!"END {id} calls={st.groups.size} subs={st.subs.length} diffs={st.diffs} fails={st.fails}"]

end RobsDriver

/-! ### C14: fault scenarios -/

namespace RobsDriver

variable {S : Sys}

/-- run the internal transitions of the subscriber/mirror LTS until none is enabled -/
def runInternal (s : MSt S) : Nat → MSt S
  | 0 => s
  | fuel + 1 =>
    match s.step .consume with
    | some s' => runInternal s' fuel
    | none =>
      match s.step .shed with
      | some s' => runInternal s' fuel
      | none =>
        match s.step .rearm with
        | some s' => runInternal s' fuel
        | none => s

structure Sub14 (S : Sys) where
  sid : String
  k : Nat                 -- length of the history at subscription time
  incr : Bool
  remote : Bool
  mirror : Bool
  buf : Nat
  max : Nat
  c0 : S.C                -- real contents at subscription time
  done0 : Bool
  /-- model of a local snapshot mirror, advanced at every settle point -/
  model : Option (MSt S)
  /-- events already fed to the model -/
  fed : Nat
  /-- forged subscription (arbitrary snapshot and events, no collection behind it) -/
  forged : Bool := false
  recvs : List String := []
  /-- borrow results: (history length at that time, contents, complete, done, err) -/
  checks : List (Nat × String × String × String × String) := []
  final : Option String := none

structure St14 (S : Sys) where
  id : String
  obs : Obs S.C
  init : S.C
  hist : Array (Event S.Ev) := #[]
  subs : List (Sub14 S) := []
  dropped : Bool := false
  cut : Bool := false
  diffs : Nat := 0
  fails : Nat := 0
  out : Array String := #[]

def St14.diff (st : St14 S) (what : String) : St14 S :=
  { st with diffs := st.diffs + 1, out := st.out.push s!"DIFF {st.id} {what}" }

def St14.fail (st : St14 S) (coll what cause : String) : St14 S :=
  { st with fails := st.fails + 1, out := st.out.push s!"FAIL {st.id} {coll} {what} cause={cause}" }

/-- advance the models of the local snapshot mirrors to the current settle point -/
def advanceModels (st : St14 S) (dropNow : Bool) : St14 S :=
  { st with subs := st.subs.map (fun s =>
      match s.model with
      | none => s
      | some m =>
        let evs := (st.hist.toList.drop (s.k + s.fed))
        let m := evs.foldl (fun m e => (m.step (.emit e)).getD m) m
        let m := if dropNow then (m.step .drop).getD m else m
        let m := runInternal m (4 * (st.hist.size + 10))
        { s with model := some m, fed := s.fed + evs.length }) }

def showMirror14 (cd : Codec S) (t : Remoc.Robs.Task S.C) : String :=
  if t.m.error.isSome then s!"? ? ? {showOptErr t.m.error}"
  else s!"{cd.showC t.m.v} {showBool t.m.complete} {showBool t.m.done} -"

def feedLine14 (cd : Codec S) (st : St14 S) (line : String) : St14 S :=
  let ws := words line
  match ws with
  | "init" :: [c] =>
    match cd.parseC c with
    | some c => { st with obs := ⟨c, false⟩, init := c }
    | none => st.diff s!"unparsable init {c}"
  | "sub" :: sid :: mode :: place :: kind :: rest =>
    let getOpt (key : String) (dflt : Nat) : Nat :=
      match rest.find? (·.startsWith (key ++ "=")) with
      | some t => ((t.drop (key.length + 1)).toString.toNat?).getD dflt
      | none => dflt
    let buf := getOpt "buf" 1000000
    let max := getOpt "max" 1000000
    let incr := mode == "incr"
    let remote := place == "remote"
    let mirror := kind == "mirror"
    let forged := rest.contains "forged"
    let model : Option (MSt S) :=
      if mirror && (!remote || forged) && !incr && !st.obs.done then some (MSt.init S st.obs.v buf max) else none
    { st with subs := st.subs ++ [{ sid, k := st.hist.size, incr, remote, mirror, buf, max, c0 := st.obs.v,
                                    done0 := st.obs.done, model, fed := 0, forged }] }
  | "ev" :: rest =>
    match parseEvent cd rest with
    | some e => { st with hist := st.hist.push e }
    | none => st.diff s!"unparsable event {" ".intercalate rest}"
  | ["state", c, d] =>
    match cd.parseC c, parseBool d with
    | some rc, some rd =>
      -- the events sent so far, applied by the model's handle_event, give the real contents
      let folded := prefixState S 1000000 st.init st.hist.toList
      let st := if cd.showC folded == cd.showC rc then st
        else st.diff s!"state after {st.hist.size} events: real {c} but the events fold to {cd.showC folded}"
      advanceModels { st with obs := ⟨rc, rd⟩ } false
    | _, _ => st.diff s!"unparsable state line {line}"
  | ["settled"] => advanceModels st false
  | ["dropped"] => advanceModels { st with dropped := true } true
  | ["cutdone"] => { st with cut := true }
  | "recv" :: sid :: rest =>
    { st with subs := st.subs.map (fun (s : Sub14 S) => if s.sid == sid then { s with recvs := s.recvs ++ [" ".intercalate rest] } else s) }
  | ["borrow", sid, c, complete, done, err] =>
    let chk := (st.hist.size, c, (complete.drop 9).toString, (done.drop 5).toString, (err.drop 4).toString)
    let st : St14 S := { st with subs := st.subs.map (fun (s : Sub14 S) => if s.sid == sid then { s with checks := s.checks ++ [chk] } else s) }
    -- model comparison for local snapshot mirrors
    match st.subs.find? (fun (s : Sub14 S) => s.sid == sid) with
    | some s =>
      match s.model with
      | some m =>
        let real := if chk.2.2.2.2 == "-" then s!"{chk.2.1} {chk.2.2.1} {chk.2.2.2.1} -" else s!"? ? ? {chk.2.2.2.2}"
        if showMirror14 cd m.task == real then st
        else st.diff s!"mirror {sid} after {st.hist.size} events: real [{real}] model [{showMirror14 cd m.task}]"
      | none => st
    | none => st
  | ["final", sid, c] =>
    let st : St14 S := { st with subs := st.subs.map (fun (s : Sub14 S) => if s.sid == sid then { s with final := some c } else s) }
    match st.subs.find? (fun (s : Sub14 S) => s.sid == sid) with
    | some s =>
      match s.model with
      | some m =>
        if cd.showC m.task.m.v == c then st
        else st.diff s!"mirror {sid} detach: real {c} model {cd.showC m.task.m.v}"
      | none => st
    | none => st
  | "crash" :: rest => st.diff s!"harness crash {" ".intercalate rest}"
  | _ => st

/-- position of `x` in `l` at or after index `from` -/
def findFrom (l : List String) (x : String) (start : Nat) : Option Nat :=
  ((l.drop start).findIdx? (· == x)).map (· + start)

def isRemoteErr (e : String) : Bool :=
  e == "RemoteReceive" || e == "RemoteConnect" || e == "RemoteListen"

def checkMirror14 (cd : Codec S) (st : St14 S) (s : Sub14 S) : St14 S :=
  let later := st.hist.toList.drop s.k
  -- contents after every prefix of the history since the subscription (as texts)
  -- (the collection's own history: no size limit; a mirror refuses a growing `Resize` beyond its limit *before* applying it)
  let states : List String := (List.range (later.length + 1)).map (fun j => cd.showC (prefixState S 1000000000 s.c0 (later.take j)))
  let sizes : List Nat := (List.range (later.length + 1)).map (fun j => S.size (prefixState S 1000000000 s.c0 (later.take j)))
  -- walk through the checkpoints
  let step := fun (acc : St14 S × Nat × Option String) (chk : Nat × String × String × String × String) =>
    let (st, idx, err) := acc
    let (_, c, complete, _, e) := chk
    if e != "-" then
      match err with
      | some e0 => if e0 == e then (st, idx, err) else (st.fail cd.name s!"mirror-error-changed sub={s.sid} {e0} -> {e}" "unexplained", idx, some e)
      | none => (st, idx, some e)
    else
      match err with
      | some e0 => (st.fail cd.name s!"mirror-error-vanished sub={s.sid} {e0}" "unexplained", idx, none)
      | none =>
        if complete != "1" then (st, idx, err)   -- incremental initial value still arriving
        else
          match findFrom states c idx with
          | some j =>
            -- finding F9: the code as modelled accepts this prefix without error although the limit is exceeded
            let t0 : Remoc.Robs.Task S.C :=
              { m := { v := s.c0, complete := true, done := false, error := none, maxSize := s.max }, running := true }
            let modelAccepts := (S.taskRun codeVariant t0 ((later.take j).map Recv.ev)).m.error.isNone
            let st := if (sizes.getD j 0) ≤ s.max then st
              else st.fail cd.name s!"mirror-exceeds-max-size sub={s.sid} size={sizes.getD j 0} max={s.max}"
                (if !modelAccepts then "unexplained"
                 else if j == 0 || S.size s.c0 > s.max then "max-size-unchecked-snapshot" else "max-size-unchecked-event")
            (st, j, err)
          | none => (st.fail cd.name s!"mirror-not-a-prefix-state sub={s.sid} contents={c} after-index={idx}" "unexplained", idx, err)
  let (st, idx, err) := s.checks.foldl step (st, 0, none)
  -- detach: the last consistent contents stay retrievable
  let st := match s.final with
    | some c =>
      let complete := (s.checks.getLast?.map (fun k => k.2.2.1 == "1" || k.2.2.1 == "?")).getD true
      if !complete && err.isNone then st
      else if !s.incr || err.isNone || true then
        match findFrom states c idx with
        | some _ => st
        | none =>
          -- an incremental mirror that failed before completion holds a partial initial value
          if s.incr && err.isSome && (findFrom states c 0).isNone && !(s.checks.any (fun k => k.2.2.1 == "1")) then st
          else st.fail cd.name s!"detach-not-a-prefix-state sub={s.sid} contents={c} after-index={idx}" "unexplained"
      else st
    | none => st
  -- at the end (quiescence): no error => everything applied, and the collection was not lost
  let st := match s.checks.getLast? with
    | some (_, c, complete, done, e) =>
      if e == "-" then
        let st := if complete == "1" && c != states.getLast?.getD "" then
            st.fail cd.name s!"mirror-stale-without-error sub={s.sid} mirror={c} collection={states.getLast?.getD ""}" "unexplained"
          else st
        let st := if complete != "1" then st.fail cd.name s!"mirror-incomplete-without-error sub={s.sid}" "unexplained" else st
        let st := if st.dropped && done != "1" then st.fail cd.name s!"mirror-no-error-after-drop sub={s.sid}" "unexplained" else st
        let st := if st.cut && s.remote && done != "1" then st.fail cd.name s!"mirror-no-error-after-cut sub={s.sid}" "unexplained" else st
        st
      else
        -- the error must correspond to something that happened
        let ok :=
          if e == "Lagged" then s.buf < later.length
          else if e == "Closed" then st.dropped || (st.cut && s.remote)
          else if isRemoteErr e then st.cut && s.remote
          else if e.startsWith "MaxSizeExceeded(" then e == s!"MaxSizeExceeded({s.max})" && sizes.any (· > s.max)
          else if e.startsWith "InvalidIndex(" then
            -- only a forged event stream can contain an event that does not apply; which one is the model's call
            s.forged && (match s.model with | some m => showOptErr m.task.m.error == e | none => false)
          else false
        if ok then st else st.fail cd.name s!"mirror-unexpected-error sub={s.sid} err={e}" "unexplained"
    | none => st.diff s!"mirror {s.sid}: no borrow line"
  st

def checkHand14 (cd : Codec S) (st : St14 S) (s : Sub14 S) : St14 S :=
  let later : List String := (st.hist.toList.drop s.k).map (showEvent cd)
  let initEls : List String := if s.incr then (cd.incrEvents s.c0).map cd.showEv else []
  -- phase 1 (incremental): the initial elements in any order, then InitialComplete
  let toks := s.recvs
  let (initGot, restToks) : List String × List String :=
    if s.incr then
      match toks.findIdx? (· == "InitialComplete") with
      | some i => (toks.take i, toks.drop (i + 1))
      | none => (toks, [])
    else ([], toks)
  let sawIC := !s.incr || toks.contains "InitialComplete"
  let st := if !s.incr then st
    else if sawIC then
      (if sortStrs initGot == sortStrs initEls || (!cd.hashed && initGot == initEls) then st
       else st.fail cd.name s!"initial-elements-differ sub={s.sid} got=[{"; ".intercalate initGot}] expected=[{"; ".intercalate initEls}]" "unexplained")
    else st
  -- phase 2: events; a gap must be announced by Lagged.  The same event text may occur several times in the
  -- history, so all positions the subscriber can be at are tracked (`ps`: indices of the next expected event).
  let walk := fun (acc : St14 S × List Nat × Bool × Bool × String) (tok : String) =>
    let (st, ps, lagSeen, sawDone, _) := acc
    if tok == "pending" || tok == "eof" then (st, ps, lagSeen, sawDone, tok)
    else if tok.startsWith "err:" then
      let e := (tok.drop 4).toString
      let st := if e == "Lagged" && cd.name == "list" then st.fail cd.name s!"list-subscriber-lagged sub={s.sid}" "unexplained" else st
      (st, ps, lagSeen || e == "Lagged", sawDone, tok)
    else
      let lo := ps.foldl min later.length
      let direct := (ps.filter (fun p => later.getD p "" == tok && p < later.length)).map (· + 1)
      let jumped := if lagSeen then
          ((List.range later.length).filter (fun q => lo ≤ q && later.getD q "" == tok)).map (· + 1)
        else []
      let ps' := (direct ++ jumped).eraseDups
      if !ps'.isEmpty then (st, ps', false, sawDone || tok == "Done", tok)
      else
        match findFrom later tok lo with
        | some q =>
          (st.fail cd.name s!"gap-without-Lagged sub={s.sid} skipped={q - lo} before={tok}" "unexplained",
            [q + 1], false, sawDone || tok == "Done", tok)
        | none => (st.fail cd.name s!"event-not-in-history sub={s.sid} event={tok}" "unexplained", ps, lagSeen, sawDone, tok)
  let (st, ps, lagSeen, sawDone, last) := restToks.foldl walk (st, [0], false, false, "")
  let caughtUp := ps.contains later.length
  let p := ps.foldl max 0
  -- end of the run: told about everything that was missed
  if !sawIC then
    -- the initial value never completed: that needs an error
    if (toks.getLast?.getD "").startsWith "err:" then st
    else st.fail cd.name s!"initial-value-incomplete-without-error sub={s.sid} last={toks.getLast?.getD "-"}" "unexplained"
  else if last == "eof" then
    if sawDone then st else st.fail cd.name s!"eof-without-Done sub={s.sid}" "unexplained"
  else if last == "pending" then
    let st := if caughtUp || lagSeen then st
      else st.fail cd.name s!"stale-without-error sub={s.sid} received={p} sent={later.length}" "unexplained"
    let st := if st.dropped && !sawDone then st.fail cd.name s!"no-error-after-drop sub={s.sid}" "unexplained" else st
    let st := if st.cut && s.remote && !sawDone then st.fail cd.name s!"no-error-after-cut sub={s.sid}" "unexplained" else st
    st
  else if last.startsWith "err:" then
    let e := (last.drop 4).toString
    let ok :=
      if e == "Closed" then (st.dropped || (st.cut && s.remote)) && (caughtUp || lagSeen || (st.cut && s.remote))
      else if isRemoteErr e then st.cut && s.remote
      else if e == "Lagged" then true
      else false
    if ok then st else st.fail cd.name s!"unexpected-final-error sub={s.sid} err={e} received={p} sent={later.length}" "unexplained"
  else st

def runCase14 (cd : Codec S) (id : String) (lines : List String) : List String :=
  let st0 : St14 S := { id, obs := ⟨S.empty, false⟩, init := S.empty }
  let st := lines.foldl (feedLine14 cd) st0
  let st := st.subs.foldl (fun st s => if s.mirror then checkMirror14 cd st s else checkHand14 cd st s) st
  st.out.toList ++ [s!"END {id} calls={st.hist.size} subs={st.subs.length} diffs={st.diffs} fails={st.fails}"]

end RobsDriver

open RobsDriver

structure Top where
  id : String := ""
  coll : String := ""
  kind : String := "c13"
  lines : Array String := #[]

def step (st : Top) (_n : Nat) (line : String) : IO Top := do
  let l := line.trimAscii.toString
  if l.isEmpty || l.startsWith "#" then return st
  match words l with
  | ["case", id, coll] => return { id, coll, lines := #[] }
  | ["case", id, coll, kind] => return { id, coll, kind, lines := #[] }
  | ["end"] =>
    let out := if st.kind == "c14" then (match st.coll with
      | "vec" => runCase14 vecCodec st.id st.lines.toList
      | "deque" => runCase14 dequeCodec st.id st.lines.toList
      | "map" => runCase14 mapCodec st.id st.lines.toList
      | "set" => runCase14 setCodec st.id st.lines.toList
      | "list" => runCase14 listCodec st.id st.lines.toList
      | other => [s!"DIFF {st.id} unknown collection {other}", s!"END {st.id} calls=0 subs=0 diffs=1 fails=0"])
      else match st.coll with
      | "vec" => runCase vecCodec st.id st.lines.toList
      | "deque" => runCase dequeCodec st.id st.lines.toList
      | "map" => runCase mapCodec st.id st.lines.toList
      | "set" => runCase setCodec st.id st.lines.toList
      | "list" => runCase listCodec st.id st.lines.toList
      | other => [s!"DIFF {st.id} unknown collection {other}", s!"END {st.id} calls=0 subs=0 diffs=1 fails=0"]
    for o in out do IO.println o
    return {}
  | _ => return { st with lines := st.lines.push l }

def main : IO Unit := do
  let stdin ← IO.getStdin
  lineLoop stdin ({} : Top) 1 step (fun st => do
    if st.id != "" then IO.println s!"DIFF {st.id} truncated case (no end line)")
