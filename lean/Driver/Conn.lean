import RemocModel.Table.Model
import RemocModel.Table.ConnInv
import Driver.WireText
/-
Driver for the connection-level correspondence (C07, C10): two real chmux endpoints on
script-owned wires, every script step followed by a settle.  Per trace the driver

 (i)  replays both dispatchers on M_table: every message put on a wire must be what `handleEvt`
      emits for a local event the model allows in its state, every delivered message is fed to
      `handleRx`/`handleData`, which must not raise a protocol error (`DIFF`);
 (ii) evaluates predicates on the real observations (`FAIL <prop>`):
      c10  unanswered client requests never exceed the queue length the peer advertised; every
           connect/accept/request call resolves exactly once and none is left pending at the end;
           an accepted request yields a pair whose port numbers mirror each other, each port number
           pairs with exactly one peer port, and labels sent over every port arrive at exactly the
           mirrored port; refusals carry the true reason; a request reported as sent is on the wire
           before any data sent afterwards;
      c07  concurrently open ports never share a number or exceed `max_ports`; a port number is not
           reused before both directions are finished; after everything is dropped both dispatchers
           return Ok, the allocators are back to full capacity and no task is left.

      inv  after every frame put on or taken off a wire the decidable global invariant of the two-endpoint
           system model (`RemocModel/Table/ConnInv.lean`: request location / credit equation -> c10, pairing and
           no-message-for-a-freed-port, connection flags -> c07) is evaluated on the reconstructed state (both
           dispatcher models, both wires); `Props/C07.lean`, `C08.lean`, `C10.lean` prove it for every
           interleaving of the model.

Output: `DIFF|FAIL …`, `END <trace> events=<n> replay=<ok|mismatch> c07=<ok|FAIL> c10=<ok|FAIL>`.
-/
open Driver Remoc.Wire Remoc.Table
open Remoc.Table.Sys (requeue reqEqB reqInvB portInvB flagInvB)

abbrev AL (α : Type) := List (String × α)
def AL.get? {α} (m : AL α) (k : String) : Option α := (m.find? (·.1 == k)).map (·.2)
def AL.set {α} (m : AL α) (k : String) (v : α) : AL α :=
  if m.any (·.1 == k) then m.map (fun p => if p.1 == k then (k, v) else p) else m ++ [(k, v)]

def other (s : String) : String := if s == "A" then "B" else "A"
def sideIdx (s : String) : Nat := if s == "A" then 0 else 1

def kvGet (ws : List String) (key : String) : Option String :=
  (ws.find? (·.startsWith (key ++ "="))).map (fun w => (w.drop (key.length + 1)).toString)
def kvNat (ws : List String) (key : String) : Option Nat := (kvGet ws key).bind (·.toNat?)

/-- wire-level view of a port of one side, for the c07 predicates -/
structure WPort where
  num : Nat
  peer : Option Nat := none        -- peer port once known
  connecting : Bool := true
  sf : Bool := false               -- this side sent SendFinish
  rf : Bool := false               -- this side sent ReceiveFinish
  psf : Bool := false              -- peer's SendFinish delivered
  prf : Bool := false              -- peer's ReceiveFinish delivered
deriving Repr

structure Side where
  ep : Ep := { cfg := { maxPorts := 0, cq := 0, chunk := 0, buf := 0, remoteCq := 0 } }
  hdrRx : Option (Nat × Bool × Bool) := none
  txPayload : Bool := false
  lastHdrTx : Option Nat := none
  expectTx : List Msg := []
  run : Option String := none
  open_ : List WPort := []         -- ports considered open from the wire's point of view
  unanswered : Nat := 0            -- OpenPort sent, answer not yet delivered
  opensSent : List Nat := []       -- client ports of OpenPort frames on the wire, in order
  rejectedRx : List (Nat × Bool) := []   -- Rejected frames delivered: (client port, no_ports)
  openedRx : List Nat := []
  listenerFinishRx : Bool := false
  /-- client ports of the OpenPort requests delivered to this side and not answered by it yet -/
  openRx : List Nat := []
  maxPorts : Nat := 0
  allocFree : Option Nat := none
  /-- `outstanding` of the model at the last quiescent point -/
  outAtSettle : List Nat := []
  /-- an `accept()` call of this side was just cancelled although no port number had been free at any quiescent
  point of its life: it cannot have taken a request out of the listener queue (it waits for a port first), so
  until the next quiescent point its cancellation cannot reject anything -/
  acceptNoPort : Bool := false
  /-- the script dropped this side's listener (the drop takes effect when the last pending listener call ends) -/
  listenerGone : Bool := false

structure CSim where
  name : String := ""
  events : Nat := 0
  a : Side := {}
  b : Side := {}
  started : Bool := false
  teardown : Bool := false
  /-- handle name@side ↦ (local, remote) -/
  handles : AL (Nat × Nat) := []
  /-- connect call id ↦ (side, wait, client port once known, line of `sent`) -/
  connects : AL (String × Bool × Option Nat × Option Nat) := []
  /-- connect calls whose OpenPort has not been seen on the wire yet, per side -/
  awaitingOpen : List (String × String) := []   -- (side, call id)
  /-- single-chunk sends: payload hex ↦ (side, line of op) -/
  sendsByPayload : AL (String × Nat) := []
  retSeen : List String := []
  pendingEnd : List String := []
  tasksBefore : Option Nat := none
  /-- wires whose window or release was restricted by the script and not reopened yet -/
  stalled : List String := []
  /-- messages in flight towards A / towards B (every decodable frame, `Data` payloads excluded) -/
  toA : List Msg := []
  toB : List Msg := []
  sawPortData : Bool := false
  invOk : Bool := true
  /-- pending `Listener::accept` calls: call id ↦ (side, no port number was free at any quiescent point so far) -/
  accepts : AL (String × Bool) := []
  /-- script operations since the last quiescent point -/
  opsSinceSettle : Nat := 0
  invChecks : Nat := 0
  replayOk : Bool := true
  c07 : Bool := true
  c10 : Bool := true
  out : List String := []

def CSim.side (s : CSim) (x : String) : Side := if x == "A" then s.a else s.b
def CSim.setSide (s : CSim) (x : String) (v : Side) : CSim := if x == "A" then { s with a := v } else { s with b := v }

def CSim.diff (s : CSim) (line : Nat) (what : String) : CSim :=
  if s.teardown then s else
  { s with replayOk := false, out := if s.out.length < 12 then s.out ++ [s!"DIFF {s.name} line={line} {what}"] else s.out }
def CSim.fail (s : CSim) (prop : String) (line : Nat) (what : String) : CSim :=
  let s := { s with out := if s.out.length < 12 then s.out ++ [s!"FAIL {s.name} {prop} line={line} {what}"] else s.out }
  if prop == "c07" then { s with c07 := false } else { s with c10 := false }

def findByRemote (e : Ep) (rp : Nat) (pred : Connected → Bool) : Option Nat :=
  (e.ports.find? (fun (_, st) => match st with | .connected c => c.remote == rp && pred c | _ => false)).map (·.1)

def inferEvt (e : Ep) : Msg → Option Evt
  | .openPort p w id => some (.connectReq p w (id.getD p))
  | .portOpened cp sp => some (.accepted sp cp)
  | .rejected cp np => some (.rejected cp np)
  | .sendFinish rp => (findByRemote e rp (fun c => !c.senderDropped)).map .senderDropped
  | .receiveClose rp => (findByRemote e rp (fun c => !c.receiverClosed && !c.receiverDropped)).map .receiverClosed
  | .receiveFinish rp => (findByRemote e rp (fun c => !c.receiverDropped)).map .receiverDropped
  | .clientFinish => some .allClientsDropped
  | .listenerFinish => some .listenerDropped
  | .goodbye => some .sendGoodbye
  | _ => none

def wopenCount (sd : Side) : Nat := sd.open_.length

def updPort (ps : List WPort) (num : Nat) (f : WPort → WPort) : List WPort :=
  ps.map (fun p => if p.num == num then f p else p)

/-- a port is finished on the wire once both directions are finished in both roles -/
def WPort.done (p : WPort) : Bool := p.sf && p.rf && p.psf && p.prf

def pruneDone (ps : List WPort) : List WPort := ps.filter (fun p => !p.done)

/-- message `m` put on the wire by side `x` -/
def CSim.onTxMsg (s : CSim) (line : Nat) (x : String) (m : Msg) : CSim :=
  let sd := s.side x
  -- true reason of a refusal: cancelling an accept() that was still waiting for a port number answers nothing
  let s := match m with
    | .rejected cp false =>
      if sd.acceptNoPort && s.stalled.isEmpty && !s.teardown && !s.sawPortData then
        s.fail "c10" line s!"side {x} rejects the request of remote port {cp} although its listener never answered it: the only thing that happened is the cancellation of an accept() that was waiting for a free port number"
      else s
    | _ => s
  -- ---------- real-observation predicates
  let (s, sd) : CSim × Side := match m with
    | .openPort cp _ _ =>
      let s := if sd.open_.any (·.num == cp) then s.fail "c07" line s!"side {x} opens port number {cp} which is still open" else s
      let sd := { sd with open_ := sd.open_ ++ [({ num := cp } : WPort)], unanswered := sd.unanswered + 1, opensSent := sd.opensSent ++ [cp] }
      let s := if sd.unanswered > sd.ep.cfg.remoteCq then
          s.fail "c10" line s!"side {x} has {sd.unanswered} unanswered OpenPort requests but the peer advertised a queue of {sd.ep.cfg.remoteCq}" else s
      let s := if sd.open_.length > sd.maxPorts then s.fail "c07" line s!"side {x} has {sd.open_.length} ports open on the wire, max_ports is {sd.maxPorts}" else s
      -- which connect call is this?
      let (mine, rest) : List (String × String) × List (String × String) := s.awaitingOpen.partition (fun (q : String × String) => q.1 == x)
      let s := match mine with
        | (_, k) :: more =>
          let s := { s with awaitingOpen := rest ++ more }
          match s.connects.get? k with
          | some (sx, w, _, sl) => { s with connects := s.connects.set k (sx, w, some cp, sl) }
          | none => s
        | [] => s
      (s, sd)
    | .rejected cp _ => (s, { sd with openRx := sd.openRx.filter (· != cp) })
    | .portOpened cp sp =>
      let sd := { sd with openRx := sd.openRx.filter (· != cp) }
      let s := if sd.open_.any (·.num == sp) then s.fail "c07" line s!"side {x} assigns server port {sp} which is still open" else s
      let sd := { sd with open_ := sd.open_ ++ [({ num := sp, peer := some cp, connecting := false } : WPort)] }
      let s := if sd.open_.length > sd.maxPorts then s.fail "c07" line s!"side {x} has {sd.open_.length} ports open on the wire, max_ports is {sd.maxPorts}" else s
      (s, sd)
    | .goodbye =>
      -- enabling condition of the internal label `goodbye` of the system model (`should_terminate`), in the
      -- form that is stable under frames delivered between the dispatcher's decision and this line
      let e := sd.ep
      let ok := e.goodbyeReceived || (e.ports.isEmpty && (e.allClientsDropped || e.remoteListenerDropped) &&
                  (e.listenerDropped || e.remoteClientDropped) && (e.outstanding.filter (sd.outAtSettle.contains ·)).isEmpty)
      let s := if !ok && s.replayOk && s.stalled.isEmpty then
          s.fail "c07" line s!"side {x} sent Goodbye although its dispatcher must keep running: {e.ports.length} port(s) in its table, {(e.outstanding.filter (sd.outAtSettle.contains ·)).length} request(s) of the peer unanswered since the last quiescent point, clients dropped={e.allClientsDropped} listener dropped={e.listenerDropped}"
        else s
      (s, sd)
    | .sendFinish rp =>
      (s, { sd with open_ := pruneDone (sd.open_.map (fun (p : WPort) => if p.peer == some rp && !p.sf then { p with sf := true } else p)) })
    | .receiveFinish rp =>
      (s, { sd with open_ := pruneDone (sd.open_.map (fun (p : WPort) => if p.peer == some rp && !p.rf then { p with rf := true } else p)) })
    | _ => (s, sd)
  -- ---------- model replay
  let s := s.setSide x sd
  if s.teardown && false then s else
  match m with
  | .data p _ _ => s.setSide x { sd with txPayload := true, lastHdrTx := some p }
  | .portData _ _ _ _ ps _ =>
    -- ports sent inside a port: each becomes a connecting port of the sender
    let ep0 := sd.ep
    let sd := { sd with open_ := sd.open_ ++ ps.map (fun p => ({ num := p } : WPort)),
                        ep := { ep0 with ports := ps.foldl (fun acc p => setPort acc p .connecting) ep0.ports,
                                         allocated := ep0.allocated ++ ps,
                                         -- every connecting port counts (the model decrements on each answer)
                                         clientPending := ep0.clientPending + ps.length } }
    s.setSide x sd
  | .portCredits rp n =>
    -- credits are returned for whole messages taken out of the port queue, oldest first
    match findByRemote sd.ep rp (fun _ => true) with
    | some lp =>
      match lookup sd.ep.ports lp with
      | some (.connected c) =>
        let rec popN (q : List Nat) (k : Nat) (fuel : Nat) : List Nat :=
          match fuel, q with
          | 0, q => q
          | _, [] => []
          | f + 1, y :: rest => if k == 0 then y :: rest else popN rest (k - y) f
        let ep0 := sd.ep
        s.setSide x { sd with ep := { ep0 with ports := setPort ep0.ports lp (.connected { c with rxq := popN c.rxq n (c.rxq.length + 1) }) } }
      | _ => s
    | none => s
  | .ping => s
  | m =>
    -- answers the dispatcher gives on its own (`handleRx` emissions) reach the wire through a spawned task
    -- and the event queue, so messages caused by local calls may overtake them; at a quiescent point
    -- none may be missing (`settled`)
    let sd := if sd.expectTx.contains m then { sd with expectTx := sd.expectTx.erase m } else sd
    let s := s.setSide x sd
    match ([] : List Msg) with
    | _ :: _ => s
    | [] =>
      match inferEvt sd.ep m with
      | none => s.diff line s!"side {x} sent {msgToText m}; no local event of the model explains it"
      | some ev =>
        let ep := match ev with
          | .accepted lp rp => let e0 := sd.ep; { e0 with listenQ := e0.listenQ.filter (·.1 != rp), allocated := e0.allocated ++ [lp] }
          | .rejected rp _ => let e0 := sd.ep; { e0 with listenQ := e0.listenQ.filter (·.1 != rp) }
          -- an OpenPort on the wire proves that the dispatcher handled the connect request before it
          -- handled a ListenerFinish that the transport delivered in the same quiescence window
          | .connectReq p _ _ => let e0 := sd.ep; { e0 with allocated := e0.allocated ++ [p], remoteListenerDropped := false }
          | _ => sd.ep
        let restore := fun (e : Ep) => match ev with
          | .connectReq _ _ _ => { e with remoteListenerDropped := sd.ep.remoteListenerDropped }
          | _ => e
        match (handleEvt ep ev).map (fun (e', m') => (restore e', m')) with
        | none => s.diff line s!"side {x} sent {msgToText m}, which the model cannot send in its state"
        | some (e', some m') =>
          let s := s.setSide x { sd with ep := e' }
          if m' == m then s else s.diff line s!"side {x}: model would send {msgToText m'}, real sent {msgToText m}"
        | some (e', none) => s.setSide x { sd with ep := e' }

/-- message `m` delivered to side `x` -/
def CSim.onRxMsg (s : CSim) (line : Nat) (x : String) (m : Msg) : CSim :=
  let sd := s.side x
  -- real-observation bookkeeping
  let sd := match m with
    | .portOpened cp sp =>
      { sd with unanswered := sd.unanswered - (if sd.opensSent.contains cp then 1 else 0), openedRx := sd.openedRx ++ [cp],
                open_ := updPort sd.open_ cp (fun p => { p with peer := some sp, connecting := false }) }
    | .rejected cp np =>
      { sd with unanswered := sd.unanswered - (if sd.opensSent.contains cp then 1 else 0), rejectedRx := sd.rejectedRx ++ [(cp, np)],
                open_ := sd.open_.filter (·.num != cp) }
    | .sendFinish p => { sd with open_ := pruneDone (updPort sd.open_ p (fun q => { q with psf := true })) }
    | .receiveFinish p => { sd with open_ := pruneDone (updPort sd.open_ p (fun q => { q with prf := true })) }
    | .listenerFinish => { sd with listenerFinishRx := true }
    | .openPort cp _ _ => { sd with openRx := sd.openRx ++ [cp] }
    | _ => sd
  let s := s.setSide x sd
  if sd.ep.goodbyeReceived then s else
  match m with
  | .data p f l => s.setSide x { sd with hdrRx := some (p, f, l) }
  | m =>
    match handleRx sd.ep m with
    -- the automatic answer goes through the request's drop task and the event queue: the request stays
    -- outstanding until the answer is on the wire (`Sys.requeue`)
    | .ok (e', emit) => s.setSide x { sd with ep := requeue e' emit, expectTx := sd.expectTx ++ emit }
    | .error _ => s.diff line s!"side {x}: the model raises a protocol error on {msgToText m} delivered by a conforming peer"

/-- the two wires: a frame put on the wire by `x` travels towards the other side; a delivered frame
must be the oldest one in flight -/
def CSim.trackWire (s : CSim) (line : Nat) (isTx : Bool) (x : String) (m : Msg) : CSim :=
  let s := match m with | .portData .. => { s with sawPortData := true } | _ => s
  if isTx then
    if x == "A" then { s with toB := s.toB ++ [m] } else { s with toA := s.toA ++ [m] }
  else
    let w := if x == "A" then s.toA else s.toB
    match w with
    | h :: rest =>
      let s := if x == "A" then { s with toA := rest } else { s with toB := rest }
      if h == m then s else s.diff line s!"side {x} received {msgToText m} but the oldest frame in flight is {msgToText h}"
    | [] => s.diff line s!"side {x} received {msgToText m} which was never put on the wire"

/-- evaluate the decidable global invariant of the system model on the reconstructed state -/
def CSim.checkInv (s : CSim) (line : Nat) (isTx : Bool) (x : String) (m : Msg) : CSim :=
  if !s.replayOk || !s.invOk then s else
  let a := s.a.ep
  let b := s.b.ep
  let s := { s with invChecks := s.invChecks + 1 }
  let at_ := s!"after side {x} {if isTx then "sent" else "received"} {msgToText m}"
  let req := fun (c v : Ep) (wcv wvc : List Msg) => if s.sawPortData then reqEqB c v wcv wvc else reqInvB c v wcv wvc
  if !(req a b s.toB s.toA) then
    { (s.fail "c10" line s!"global invariant (requests of A: each connecting port is exactly one of in flight / outstanding at B / answered in flight, at most the advertised queue) violated {at_}") with invOk := false }
  else if !(req b a s.toA s.toB) then
    { (s.fail "c10" line s!"global invariant (requests of B: each connecting port is exactly one of in flight / outstanding at A / answered in flight, at most the advertised queue) violated {at_}") with invOk := false }
  else if !(portInvB a b s.toB) then
    { (s.fail "c07" line s!"global invariant (ports, direction A to B: pairing, one finish per flag, no frame for a port that is not in the table) violated {at_}") with invOk := false }
  else if !(portInvB b a s.toA) then
    { (s.fail "c07" line s!"global invariant (ports, direction B to A: pairing, one finish per flag, no frame for a port that is not in the table) violated {at_}") with invOk := false }
  else if !(flagInvB a b s.toB) then
    { (s.fail "c07" line s!"global invariant (connection flags A to B: ClientFinish/ListenerFinish/Goodbye once, nothing after Goodbye, no request after ClientFinish) violated {at_}") with invOk := false }
  else if !(flagInvB b a s.toA) then
    { (s.fail "c07" line s!"global invariant (connection flags B to A: ClientFinish/ListenerFinish/Goodbye once, nothing after Goodbye, no request after ClientFinish) violated {at_}") with invOk := false }
  else s

def CSim.onWire (s : CSim) (line : Nat) (isTx : Bool) (x : String) (hex : String) : CSim :=
  if !s.started then s else
  match parseHex hex with
  | none => s
  | some bs =>
    let sd := s.side x
    if isTx && sd.txPayload then
      -- payload of a Data message: c10 "sent before later data" check
      let s := s.setSide x { sd with txPayload := false }
      match s.sendsByPayload.get? hex with
      | some (sx, opLine) =>
        if sx != x then s else
        s.connects.foldl (fun s (k, (cs, _, cp, sl)) =>
          match sl, cp with
          | some sentLine, none =>
            if cs == x && sentLine < opLine then
              s.fail "c10" line s!"data of a send issued after connect {k} was reported as sent is on the wire before its OpenPort request" else s
          | _, _ => s) s
      | none => s
    else if !isTx && sd.hdrRx.isSome then
      match sd.hdrRx with
      | some (p, _, _) =>
        let sd := { sd with hdrRx := none }
        match handleData sd.ep p bs.length with
        | .ok e' => s.setSide x { sd with ep := e' }
        | .error _ => (s.setSide x sd).diff line s!"side {x}: the model raises a protocol error on data for port {p} from a conforming peer"
      | none => s
    else
      match decode bs with
      | .error _ => s.diff line s!"frame not decodable by the v3 spec decoder: {hex}"
      | .ok m =>
        let s := if isTx then s.onTxMsg line x m else s.onRxMsg line x m
        (s.trackWire line isTx x m).checkInv line isTx x m

/-- the text sent by `labelall`: "L:<local>:<remote>" of the sending handle -/
def parseLabel (bs : List UInt8) : Option (Nat × Nat) :=
  let t := String.ofList (bs.map (fun b => Char.ofNat b.toNat))
  match t.splitOn ":" with
  | ["L", a, b] => match a.toNat?, b.toNat? with
    | some a, some b => some (a, b)
    | _, _ => none
  | _ => none

def CSim.onRet (s : CSim) (line : Nat) (k : String) (res : List String) : CSim :=
  let s := if s.retSeen.contains k then s.fail "c10" line s!"call {k} resolved more than once" else { s with retSeen := s.retSeen ++ [k] }
  -- label received through a port: must come from the mirrored port
  let s :=
    match k.splitOn ".", res with
    | [_, "r", name, side], ["data", hx] =>
      match s.handles.get? (name ++ "@" ++ side), parseHex hx with
      | some (l, r), some bs =>
        match parseLabel bs with
        | some (sl, sr) =>
          if sl == r && sr == l then s
          else s.fail "c10" line s!"port {name}@{side} (local {l}, remote {r}) received the label of a port with local {sl}, remote {sr}: ports are not connected one-to-one"
        | none => s
      | _, _ => s
    | _, _ => s
  -- connect results: true reason
  match s.connects.get? k with
  | some (x, wait, cp, _) =>
    let sd := s.side x
    match res with
    | "ok" :: rest =>
      match kvNat rest "local", cp with
      | some l, some c => if l == c then s else s.fail "c10" line s!"connect {k} returned local port {l} but its request used client port {c}"
      | _, _ => s
    | ["err", "rejected"] =>
      let answered := match cp with
        | some c => sd.rejectedRx.any (fun (p, np) => p == c && !np)
        | none => false
      if answered || sd.listenerFinishRx || sd.ep.remoteListenerDropped then s
      else s.fail "c10" line s!"connect {k} reports 'rejected' but no Rejected message for it was delivered and the remote listener is not known to be dropped"
    | ["err", "remote-ports-exhausted"] =>
      let answered := match cp with
        | some c => sd.rejectedRx.any (fun (p, np) => p == c && np)
        | none => false
      if answered then s else s.fail "c10" line s!"connect {k} reports 'remote ports exhausted' without a Rejected(no_ports) message"
    | ["err", "local-ports-exhausted"] =>
      if !wait then s else s.fail "c10" line s!"connect {k} with wait reports 'local ports exhausted'"
    | ["err", "too-many-pending"] =>
      if !wait && sd.unanswered ≥ sd.ep.cfg.remoteCq then s
      else s.fail "c10" line s!"connect {k} reports 'too many pending requests' with {sd.unanswered} unanswered of {sd.ep.cfg.remoteCq}"
    | ["err", "chmux"] =>
      if sd.run.isSome || s.teardown then s else s.fail "c10" line s!"connect {k} reports a multiplexer error while the dispatcher is running"
    | _ => s
  | none => s

structure CAcc where
  sim : CSim := {}
  traces : Nat := 0

def finishTrace (s : CSim) : IO Unit := do
  if s.name != "" then
    for l in s.out do IO.println l
    let b := fun (x : Bool) => if x then "ok" else "FAIL"
    IO.println s!"END {s.name} events={s.events} replay={if s.replayOk then "ok" else "mismatch"} c07={b s.c07} c10={b s.c10} inv={s.invChecks}"

def stepLine (a : CAcc) (n : Nat) (line : String) : IO CAcc := do
  let ws := words line
  let s := { a.sim with events := a.sim.events + 1 }
  -- `acceptNoPort` is meaningful only while the cancellation is the single operation of its quiescence window
  let firstOp := s.opsSinceSettle == 0
  let s := match ws with
    | "op" :: kind :: _ =>
      if kind == "settle" then s
      else if firstOp then { s with opsSinceSettle := 1 }
      else { s with opsSinceSettle := s.opsSinceSettle + 1, a := { s.a with acceptNoPort := false }, b := { s.b with acceptNoPort := false } }
    | _ => s
  let s := match ws with
    | ["op", "droplistener", x] => s.setSide x { s.side x with listenerGone := true }
    | _ => s
  match ws with
  | ["trace", name] =>
    finishTrace a.sim
    return { sim := { name := name }, traces := a.traces + 1 }
  | "cfg" :: x :: rest =>
    -- own configuration of x; the peer's remoteCq/remoteBuf come from the other side's line
    let sd := s.side x
    let c0 := sd.ep.cfg
    let cfg : EpCfg := { c0 with maxPorts := (kvNat rest "ports").getD 0, cq := (kvNat rest "cq").getD 0,
                                 chunk := (kvNat rest "chunk").getD 0, buf := (kvNat rest "buf").getD 0 }
    let ep0 := sd.ep
    let s := s.setSide x { sd with ep := { ep0 with cfg := cfg }, maxPorts := (kvNat rest "ports").getD 0 }
    let od := s.side (other x)
    let oc := od.ep.cfg
    let oep := od.ep
    let s := s.setSide (other x) { od with ep := { oep with cfg := { oc with remoteCq := (kvNat rest "cq").getD 0, remoteBuf := (kvNat rest "buf").getD 0 } } }
    return { a with sim := s }
  | ["new", _, "ok"] => return { a with sim := { s with started := true } }
  | ["tx", x, hx] => return { a with sim := s.onWire n true x hx }
  | ["rx", x, hx] => return { a with sim := s.onWire n false x hx }
  | "run" :: x :: res =>
    let sd := s.side x
    let r := " ".intercalate res
    let s := s.setSide x { sd with run := some r }
    let s := if r != "ok" then s.fail "c07" n s!"dispatcher {x} ended with '{r}' on a healthy transport" else s
    return { a with sim := s }
  | "port" :: name :: x :: rest =>
    return { a with sim := { s with handles := s.handles.set (name ++ "@" ++ x) ((kvNat rest "local").getD 0, (kvNat rest "remote").getD 0) } }
  | "op" :: "connect" :: k :: x :: _ :: rest =>
    let wait := (kvGet rest "wait") != some "0"
    return { a with sim := { s with connects := s.connects.set k (x, wait, none, none), awaitingOpen := s.awaitingOpen ++ [(x, k)] } }
  | ["op", "send", _, x, _, hx] =>
    return { a with sim := { s with sendsByPayload := s.sendsByPayload.set hx (x, n) } }
  | ["opd", "send", _, x, _, hx] =>
    return { a with sim := { s with sendsByPayload := s.sendsByPayload.set hx (x, n) } }
  | ["op", "dropall"] => return { a with sim := { s with teardown := true } }
  | "op" :: "accept" :: k :: x :: _ =>
    let sd := s.side x
    let exhausted := sd.maxPorts > 0 && sd.ep.allocated.length ≥ sd.maxPorts
    return { a with sim := { s with accepts := s.accepts.set k (x, exhausted) } }
  | ["op", "cancel", k] =>
    match s.accepts.get? k with
    | some (x, true) =>
      let sd := s.side x
      let exhausted := sd.maxPorts > 0 && sd.ep.allocated.length ≥ sd.maxPorts
      return { a with sim := (s.setSide x { sd with acceptNoPort := exhausted && firstOp && !sd.listenerGone }) }
    | _ => return { a with sim := s }
  | ["op", kind, x, v] =>
    if kind == "window" || kind == "release" then
      let key := kind ++ x
      let st := s.stalled.filter (· != key)
      return { a with sim := { s with stalled := if v == "inf" then st else st ++ [key] } }
    else return { a with sim := s }
  | "settled" :: settledRest =>
    let s := { s with opsSinceSettle := 0 }
    -- c10 liveness: a connect that has not produced its OpenPort is waiting for a local port number or for a
    -- connect credit; at a quiescent point with both available (and nothing else pending that could hold a port
    -- number: accepts allocate before they wait) it must have gone out
    let pendingIds : List String := match kvGet settledRest "pending" with
      | some "-" => []
      | some t => t.splitOn ","
      | none => []
    let s := if s.teardown || !s.stalled.isEmpty || s.sawPortData || !pendingIds.all (·.startsWith "c") then s else
      s.awaitingOpen.foldl (fun s (x, k) =>
        let sd := s.side x
        let peer := s.side (if x == "A" then "B" else "A")
        if pendingIds.contains k && sd.run.isNone && peer.run.isNone && sd.maxPorts > 0 &&
           sd.ep.allocated.length < sd.maxPorts && sd.unanswered < sd.ep.cfg.remoteCq &&
           !sd.ep.remoteListenerDropped && !sd.ep.goodbyeSent && !sd.ep.goodbyeReceived && !sd.listenerFinishRx then
          s.fail "c10" n s!"connect {k} of side {x} is still waiting although a port number ({sd.ep.allocated.length} of {sd.maxPorts} in use) and a connect credit are available at a quiescent point"
        else s) s
    let s := { s with a := { s.a with outAtSettle := s.a.ep.outstanding, acceptNoPort := false },
                      b := { s.b with outAtSettle := s.b.ep.outstanding, acceptNoPort := false } }
    let s := { s with accepts := s.accepts.map (fun (k, (x, fl)) =>
      let sd := s.side x
      (k, (x, fl && sd.maxPorts > 0 && sd.ep.allocated.length ≥ sd.maxPorts))) }
    if s.teardown || !s.stalled.isEmpty then return { a with sim := s } else
    let chk := fun (s : CSim) (x : String) =>
      match (s.side x).run, (s.side x).expectTx with
      | none, e :: _ => s.diff n s!"side {x}: the model's automatic answer {msgToText e} was not sent although the connection is quiescent"
      | _, _ => s
    return { a with sim := chk (chk s "A") "B" }
  | "listen" :: x :: rest =>
    -- quiescent point: every port-open request delivered to x and not answered yet must still be somewhere:
    -- waiting in the listener queue or held by the application (a request object or a call that owns one)
    match kvNat rest "q", kvNat rest "held" with
    | some q, some h =>
      let o := ((s.side x).ep.outstanding.filter ((s.side x).openRx.contains ·)).length
      if !s.teardown && s.replayOk && s.stalled.isEmpty && s.a.run.isNone && s.b.run.isNone && o > q + h then
        return { a with sim := s.fail "c10" n s!"side {x} has {o} unanswered port-open requests, but only {q} wait in its listener queue and {h} are held by the application: a request was consumed without being answered" }
      else return { a with sim := s }
    | _, _ => return { a with sim := s }
  | ["sent", k] =>
    match s.connects.get? k with
    | some (x, w, cp, _) => return { a with sim := { s with connects := s.connects.set k (x, w, cp, some n) } }
    | none => return { a with sim := s }
  | "ret" :: k :: "req" :: rest =>
    -- the listener handed a request to the application
    let s := s.onRet n k ("req" :: rest)
    -- which side? the request's remote port is a client port of the other side
    match kvNat rest "remote" with
    | some rp =>
      let fix := fun (sd : Side) => let e0 := sd.ep; { sd with ep := { e0 with listenQ := e0.listenQ.filter (·.1 != rp) } }
      return { a with sim := { s with a := fix s.a, b := fix s.b } }
    | none => return { a with sim := s }
  | "ret" :: k :: res =>
    let s := { s with accepts := s.accepts.filter (·.1 != k) }
    -- a connect call that failed before sending anything never produces an OpenPort
    let s := { s with awaitingOpen := s.awaitingOpen.filter (fun (_, c) => !(c == k && (res.head? == some "err") && (s.connects.get? k).bind (fun v => v.2.2.1) == none && !(res == ["err", "rejected"]))) }
    return { a with sim := s.onRet n k res }
  | ["cancelled", k] =>
    return { a with sim := { s with awaitingOpen := s.awaitingOpen.filter (fun (_, c) => c != k || ((s.connects.get? k).bind (fun v => v.2.2.2)).isSome) } }
  | "credits" :: name :: x :: rest =>
    -- sync the model's per-port queue with the real counter (consumption pops whole messages)
    match kvNat rest "used", (s.handles.get? (name ++ "@" ++ x)) with
    | some u, some (lp, _) =>
      let sd := s.side x
      match lookup sd.ep.ports lp with
      | some (.connected c) =>
        let rec pop (q : List Nat) (fuel : Nat) : List Nat :=
          match fuel, q with
          | 0, q => q
          | _, [] => []
          | f + 1, y :: rest => if (y :: rest).sum > u then pop rest f else y :: rest
        let q' := pop c.rxq (c.rxq.length + 1)
        let ep0 := sd.ep
        return { a with sim := s.setSide x { sd with ep := { ep0 with ports := setPort ep0.ports lp (.connected { c with rxq := q' }) } } }
      | _ => return { a with sim := s }
    | _, _ => return { a with sim := s }
  | "alloc" :: x :: rest =>
    match kvNat rest "free", kvNat rest "max" with
    | some f, some m =>
      -- only meaningful when no port handle of that side is alive; the generator issues it right after dropping them
      -- port numbers in use must be exactly those the model holds (open or connecting ports); once the
      -- listeners are gone as well (`final`) every number must be free again
      let held := (s.side x).ep.allocated.length
      let final := rest.contains "final"
      let s := if final && f != m then
          s.fail "c07" n s!"after all ports, requests and listeners were dropped only {f} of {m} port numbers of side {x} can be allocated"
        else if !final && s.replayOk && (s.side x).run.isNone && f + held != m then
          s.fail "c07" n s!"side {x}: {f} of {m} port numbers are free but the ports still open or connecting are {held} (port numbers leaked or released early)"
        else s
      return { a with sim := s }
    | _, _ => return { a with sim := s }
  | ["tasks", t] =>
    match s.tasksBefore, t.toNat? with
    | none, some v => return { a with sim := { s with tasksBefore := some v } }
    | some b, some v =>
      if s.teardown && v > b then return { a with sim := s.fail "c07" n s!"{v} tasks alive after everything was dropped ({b} before the connection was made)" }
      else return { a with sim := s }
    | _, _ => return { a with sim := s }
  | "end" :: rest =>
    let s := match kvGet rest "pending" with
      | some "-" => s
      | some p => s.fail "c10" n s!"calls still pending after everything was dropped: {p}"
      | none => s
    let s := match kvGet rest "runA", kvGet rest "runB" with
      | some ra, some rb =>
        if s.teardown && (ra != "ok" || rb != "ok") then
          s.fail "c07" n s!"after all ports, clients and listeners were dropped the dispatchers ended with A={ra} B={rb}" else s
      | _, _ => s
    return { a with sim := s }
  | "livelock" :: _ => return { a with sim := s.fail "c07" n "livelock" }
  | "panic" :: rest => return { a with sim := s.fail "c07" n ("panic: " ++ " ".intercalate rest) }
  | _ => return { a with sim := s }

def main : IO Unit := do
  let stdin ← IO.getStdin
  lineLoop stdin ({} : CAcc) 1 stepLine (fun a => do
    finishTrace a.sim
    IO.println s!"DONE traces={a.traces}")
