import RemocModel.Rtc.Model
import Driver.Util
/-
Driver for the remote-trait-call correspondence (C12, C19): reads the traces of the `rtc` harness
(real `#[rtc::remote]` servers and clients, see harness/src/rtcworld.rs) and, per case,

 (i)  *accepts* the trace on M_rtc: every observed event (method segment executed, execution
      finished / dropped, call returned, `serve` returned) must be an enabled label of
      `Remoc.Rtc.step` with the same output after running only invisible internal labels
      (queue hand-over, lock grant, close notification, reply transmission); at every `settled`
      marker the model is run to quiescence with invisible labels and must then have no visible
      label enabled, the same set of pending calls, the same `serve` status, the same lock state
      and register value;
 (ii) evaluates the property predicates directly on the real history, independently of the model:
        c12  own reply / at most once (tag and execution nonce in arguments and results, every
             execution belongs to one request, segments in order, value outcome ⇒ one complete
             execution with the arguments passed), exclusivity of `&mut`/`self` executions
             (log intervals), linearizability of the client history w.r.t. the register
             (Wing–Gong search, real-time order, partial effects of cancelled executions);
        c19  cancellation at the next suspension point, no_cancel methods run to completion,
             lock released, `serve` keeps running, calls that have no reason to fail succeed,
             nothing hangs.

Output: `DIFF <case> line=<n> <what>`, `FAIL <case> <c12|c19> line=<n> <what>`,
`END <case> events=<n> accept=<ok|mismatch> c12=<ok|FAIL> c19=<ok|FAIL> calls=<n> …`.
-/
open Driver
open Remoc.Rtc

def kvGet (ws : List String) (key : String) : Option String :=
  ws.findSome? (fun w => if w.startsWith (key ++ "=") then some ((w.drop (key.length + 1)).toString) else none)

def kvNat (ws : List String) (key : String) : Option Nat := (kvGet ws key).bind (·.toNat?)

def two64 : Nat := 18446744073709551616

/-! ### the register object of the harness as an `Obj` -/

def methodId (m : String) : Nat :=
  match m with
  | "get" => 0 | "get_nc" => 1 | "add" => 2 | "add_nc" => 3 | "take" => 4 | "extra" => 5 | "extra_mut" => 6
  | "get_d" => 8 | "add_d" => 9      -- provided methods of the trait (default bodies, overridden by the served object)
  | _ => 7

def isMutLike (m : Nat) : Bool := m == 2 || m == 3 || m == 4 || m == 6 || m == 9

/-- argument encoding: ((by * 16 + suspension points) * 2 + request too big) * 2 + reply too big -/
def encArg (by_ nsusp : Nat) (bigReq bigReply : Bool) : Nat :=
  ((by_ * 16 + nsusp) * 2 + (if bigReq then 1 else 0)) * 2 + (if bigReply then 1 else 0)

def regObj (known : Nat → Bool) (init : Nat) : Obj where
  σ := Nat
  Loc := Nat × Nat
  σ0 := init
  kind := fun m => if m == 4 then .val else if isMutLike m then .mut else .ref
  cancellable := fun m => !(m == 1 || m == 3)
  known := known
  nseg := fun _ a => (a / 4) % 16
  init := fun _ _ => (0, 0)
  seg := fun m a k x =>
    if isMutLike m then
      let s' := (x.2 + a / 64) % two64
      ((if k == 0 then x.2 else x.1.1, s'), s')
    else ((if k == 0 then x.2 else x.1.1, x.2), x.2)
  ret := fun _ _ l => l.1 * two64 + l.2
  reqFits := fun _ _ a => (a / 2) % 2 == 0
  fits := fun _ _ a _ => a % 2 == 0

def knownFor (tr : String) (m : Nat) : Bool :=
  match tr with
  | "ro" => m == 0 || m == 1
  | "fin" => m == 0 || m == 2 || m == 4
  | _ => m ≤ 3 || m == 8 || m == 9

abbrev RO (tr : String) (init : Nat) : Obj := regObj (knownFor tr) init

def regValue {tr : String} {init : Nat} (st : State (RO tr init)) : Nat := st.σ

/-! ### simulation state -/

structure CallInfo where
  tag : Nat
  cl : Nat := 0
  m : Nat := 0
  nseg : Nat := 1          -- number of segments
  gated : Bool := true
  by_ : Nat := 0
  bigReq : Bool := false
  bigReply : Bool := false
  remote : Bool := false
  mid : Option Nat := none  -- model call id
  permits : Nat := 0
  -- real history
  invT : Nat := 0
  respT : Option Nat := none
  value : Option (Nat × Nat) := none
  err : Option String := none
  abandonT : Option Nat := none
  abandonSettled : Bool := false   -- a `settled` marker was seen after the abandon
  xs : List Nat := []              -- execution nonces seen for this call
  segs : List (Nat × Nat) := []    -- (k, v) in order
  fin : Option (Nat × Nat) := none
  dropped : Option Nat := none
  startT : Nat := 0
  endT : Option Nat := none
  afterStop : Bool := false        -- issued after serve had returned
  afterKill : Bool := false
  poisonedAtInv : Bool := false

structure Sim where
  name : String := ""
  events : Nat := 0
  out : List String := []
  acceptOk : Bool := true
  /-- calls whose caller currently does not poll the call future (`park`) -/
  parked : List Nat := []
  c12 : Bool := true
  c19 : Bool := true
  diffs : Nat := 0
  -- configuration
  tr : String := "reg"
  flavour : String := ""
  spawn : Bool := false
  cap : Nat := 1
  init : Nat := 0
  policyFail : Bool := false
  remote : List Bool := []
  maxReq : List Nat := []
  maxReply : List Nat := []
  -- model
  cfg : Cfg := { fl := .refMut, spawn := false, cap := 1, failPolicy := false, remote := fun _ => false, nclients := 1, variant := .pinned }
  st : Option (State (RO tr init)) := none
  /-- other model states compatible with everything observed so far (the model is
  nondeterministic where the real system's choice shows only later) -/
  alts : List (State (RO tr init)) := []
  calls : List CallInfo := []
  clientsAlive : List Bool := []
  dropSent : Bool := false
  -- real monitors
  active : List Nat := []          -- tags of executions in progress (started, not finished/dropped)
  served : Option String := none
  servedT : Nat := 0
  ended : Bool := false            -- `op end` seen
  killed : Bool := false
  cleanup : Bool := false
  poisonedCl : List Nat := []      -- clients that sent an over-size request
  usedX : List (Nat × Nat) := []   -- (nonce, tag)
  lastValue : Option Nat := none   -- register value according to the last segment event
  sawStop : Bool := false
  unknownIssued : Bool := false
  bigReplyIssued : Bool := false
  valueMethodDone : Bool := false
  wglBudget : Bool := false
  exact : Bool := true
  /-- the acceptor is suspended (connection lost with requests in flight: which of them had
  already reached the server is not determined by what the harness observes) -/
  fuzzy : Bool := false
  stats : List (String × Nat) := []

namespace Sim

abbrev o (s : Sim) : Obj := RO s.tr s.init

def diff (s : Sim) (line : Nat) (what : String) : Sim :=
  if s.fuzzy then s else
  if s.diffs ≥ 3 then { s with acceptOk := false, diffs := s.diffs + 1 } else
  { s with acceptOk := false, diffs := s.diffs + 1, out := s.out ++ [s!"DIFF {s.name} line={line} {what}"] }

def fail (s : Sim) (prop : String) (line : Nat) (what : String) : Sim :=
  let s := if prop == "c12" then { s with c12 := false } else { s with c19 := false }
  if (s.out.filter (·.startsWith "FAIL")).length ≥ 6 then s else
  { s with out := s.out ++ [s!"FAIL {s.name} {prop} line={line} {what}"] }

def bump (s : Sim) (k : String) : Sim :=
  if s.stats.any (·.1 == k) then { s with stats := s.stats.map (fun p => if p.1 == k then (k, p.2 + 1) else p) }
  else { s with stats := s.stats ++ [(k, 1)] }

def getCall (s : Sim) (tag : Nat) : Option CallInfo := s.calls.find? (·.tag == tag)

def setCall (s : Sim) (c : CallInfo) : Sim :=
  { s with calls := s.calls.map (fun x => if x.tag == c.tag then c else x) }

def modCall (s : Sim) (tag : Nat) (f : CallInfo → CallInfo) : Sim :=
  { s with calls := s.calls.map (fun x => if x.tag == tag then f x else x) }

end Sim

/-! ### the acceptor -/

section accept
variable {o : Obj}

def tagOf (calls : List CallInfo) (mid : Nat) : String :=
  match calls.find? (·.mid == some mid) with
  | some c => toString c.tag
  | none => s!"?{mid}"

def showLabel (calls : List CallInfo) : Label → String
  | .issue cl m a => s!"issue cl={cl} m={m} a={a}"
  | .abandon c => s!"abandon {tagOf calls c}"
  | .abandonEarly c => s!"abandonEarly {tagOf calls c}"
  | .connLoss => "connLoss"
  | .dropClients => "dropClients"
  | .enqueue c => s!"enqueue {tagOf calls c}"
  | .sendFail c => s!"sendFail {tagOf calls c}"
  | .closeSeen c => s!"closeSeen {tagOf calls c}"
  | .recvReply c => s!"recvReply {tagOf calls c}"
  | .dequeue => "dequeue"
  | .acquire => "acquire"
  | .execStep c => s!"execStep {tagOf calls c}"
  | .execCancel c => s!"execCancel {tagOf calls c}"
  | .deliver c => s!"deliver {tagOf calls c}"
  | .report c => s!"report {tagOf calls c}"
  | .serveErr => "serveErr"
  | .purge c => s!"purge {tagOf calls c}"
  | .serveEnd => "serveEnd"

/-- Invisible internal labels in the order in which they are tried when `target` is not enabled.
Serve-loop progress comes first; a close notification is never delivered to the very call whose
method segment was just observed; reply transmissions of other calls come last (a reply error
reaches the serve loop only after the loop has gone on with the requests already there). -/
def invisibleCands (st : State o) (target : Label) (first : List Nat) : List Label :=
  let ids := List.range st.n
  let others := ids.filter (fun c => !first.contains c)
  let cancel0 := (ids.filter (fun c => (st.calls c).pc == 0)).map Label.execCancel
  let progress := first.map Label.enqueue ++ [Label.dequeue, Label.acquire] ++ cancel0
  let rest := others.map Label.closeSeen ++ ids.map Label.sendFail ++ ids.map Label.purge ++ others.map Label.deliver
  match target with
  | .execStep _ => progress ++ rest
  | .execCancel _ => first.map Label.closeSeen ++ progress ++ rest
  | .recvReply _ => first.map Label.deliver ++ first.map Label.sendFail ++ first.map Label.purge ++ progress
      ++ first.map Label.closeSeen ++ rest
  | _ => ids.map Label.sendFail ++ ids.map Label.enqueue ++ progress ++ ids.map Label.closeSeen ++ rest ++ ids.map Label.report

/-- candidates when the serve loop is about to notice a reply error: the error report first -/
def errCands (st : State o) : List Label :=
  let ids := List.range st.n
  (ids.filter (fun c => (st.calls c).pc == 0)).map Label.execCancel ++ ids.map Label.closeSeen
    ++ ids.map Label.report ++ ids.map Label.deliver ++ ids.map Label.sendFail ++ ids.map Label.purge
    ++ [Label.acquire]

/-- Try to take `target`; if it is not enabled, take invisible labels (those concerning call `c`
first, `enqueue` only for `c`) until it is.  `ok` checks the result of the target step. -/
partial def enable (cfg : Cfg) (st : State o) (target : Label) (c : List Nat) (ok : State o → Bool)
    (fuel : Nat) (reorder : Bool := false) : Option (State o) :=
  -- In bursts (several stimuli without a quiescent point in between) the order in which requests
  -- of different clients arrive at the server is not determined by what the harness observes:
  -- there the model's queue is used as a multiset (the request the real server took next is
  -- moved to the front).
  let st := match c with
    | [c0] => if reorder && (st.calls c0).stage == .queued && st.queue.head? != some c0 then
        { st with queue := c0 :: st.queue.filter (· != c0) } else st
    | _ => st
  match step cfg st target with
  | some st' => if ok st' then some st' else none
  | none =>
    if fuel == 0 then none else
    let rec tryCands : List Label → Option (State o)
      | [] => none
      | l :: ls =>
        match step cfg st l with
        | some st' => enable cfg st' target c ok (fuel - 1) reorder
        | none => tryCands ls
    tryCands (if target == Label.serveErr then errCands st else invisibleCands st target c)

/-- run invisible labels until `p` holds -/
partial def enableUntil (cfg : Cfg) (st : State o) (p : State o → Bool) (fuel : Nat) : Option (State o) :=
  if p st then some st else
  if fuel == 0 then none else
  let ids := List.range st.n
  let cands := (ids.filter (fun c => (st.calls c).pc == 0)).map Label.execCancel ++ ids.map Label.closeSeen
      ++ ids.map Label.sendFail ++ ids.map Label.purge
      ++ ids.map Label.enqueue ++ [Label.dequeue, Label.acquire] ++ ids.map Label.deliver ++ ids.map Label.report
  let rec tryCands : List Label → Option (State o)
    | [] => none
    | l :: ls =>
      match step cfg st l with
      | some st' => enableUntil cfg st' p (fuel - 1)
      | none => tryCands ls
  tryCands cands

/-- run every invisible label to quiescence (eager), requests enter the queue in issue order -/
partial def closure (cfg : Cfg) (st : State o) (eagerEnqueue : Bool) (fuel : Nat) : State o :=
  if fuel == 0 then st else
  let ids := List.range st.n
  let cands := (ids.filter (fun c => (st.calls c).pc == 0)).map Label.execCancel ++ ids.map Label.closeSeen
      ++ ids.map Label.sendFail ++ ids.map Label.purge
      ++ (if eagerEnqueue then ids.map Label.enqueue else []) ++ [Label.dequeue, Label.acquire]
      ++ ids.map Label.deliver ++ ids.map Label.report
  let rec tryCands : List Label → Option (State o)
    | [] => none
    | l :: ls =>
      match step cfg st l with
      | some st' => some st'
      | none => tryCands ls
  match tryCands cands with
  | some st' => closure cfg st' eagerEnqueue (fuel - 1)
  | none => st

end accept

namespace Sim

def midOf (s : Sim) (tag : Nat) : Option Nat := (s.getCall tag).bind (·.mid)

def fingerprint {tr : String} {init : Nat} (st : State (RO tr init)) : String :=
  let calls := (List.range st.n).map (fun c =>
    let k := st.calls c
    let ch := st.chans k.rch
    s!"{repr k.stage}/{repr k.cl}/{k.pc}/{ch.closed}/{repr ch.val}/{ch.txGone}/{ch.rxGone}")
  s!"{calls} {repr st.loop} {st.queue} {st.spawned} {st.readers} {st.writer} {st.errQ} {st.connUp} {st.clientsGone} {regValue st} {st.tr.length}"

def states (s : Sim) : List (State s.o) :=
  match s.st with
  | some st => st :: s.alts
  | none => []

def setStates (s : Sim) (l : List (State s.o)) : Sim :=
  match l with
  | [] => s
  | [st] => { s with st := some st, alts := [] }
  | st :: rest =>
    -- drop duplicates, keep at most six alternatives
    let (_, uniq) := (st :: rest).foldl (fun (acc : List String × List (State s.o)) x =>
      let f := fingerprint x
      if acc.1.contains f then acc else (acc.1 ++ [f], acc.2 ++ [x])) ([], [])
    match uniq with
    | [] => s
    | st :: rest => { s with st := some st, alts := rest.take 6 }

/-- apply a (possibly branching) model transformation to every candidate state; no result = mismatch -/
def withModelL (s : Sim) (line : Nat) (what : String) (f : State s.o → List (State s.o)) : Sim :=
  if s.st.isNone then s else
  let res := s.states.flatMap f
  if res.isEmpty then s.diff line what else s.setStates res

def withModel (s : Sim) (line : Nat) (what : String) (f : State s.o → Option (State s.o)) : Sim :=
  s.withModelL line what (fun st => (f st).toList)

/-- visible labels that are enabled in the model state (gated segments need a permit) -/
def visibleEnabled {ob : Obj} (cfg : Cfg) (calls : List CallInfo) (st : State ob) : List Label :=
  let perCall := calls.foldl (fun acc c =>
    match c.mid with
    | none => acc
    | some mid =>
      let k := st.calls mid
      let stepOk := k.stage == .executing && (k.pc == 0 || !c.gated || c.permits > 0)
      let acc := if stepOk && (step cfg st (.execStep mid)).isSome then acc ++ [Label.execStep mid] else acc
      let acc := if k.pc > 0 && (step cfg st (.execCancel mid)).isSome then acc ++ [Label.execCancel mid] else acc
      if (step cfg st (.recvReply mid)).isSome then acc ++ [Label.recvReply mid] else acc) []
  let l1 := if (step cfg st .serveErr).isSome then [Label.serveErr] else []
  let l2 := if (step cfg st .serveEnd).isSome then [Label.serveEnd] else []
  perCall ++ l1 ++ l2

def modelServe {ob : Obj} (st : State ob) : String :=
  match st.loop with
  | .stopped .replyErr => "err:reply-maxsize"
  -- the repaired variant keeps serving and reports the recorded reply error when serving ends
  | .stopped .clientsGone => if st.errQ > 0 then "err:reply-maxsize" else "ok"
  | .stopped .recvFail => "err:req-deserialize"
  | .stopped .valueTaken => "ok:none"
  | _ => "running"

def modelLock {ob : Obj} (flavour : String) (st : State ob) : String :=
  if flavour != "sharedmut" then "na" else
  let waitingWriter := match st.loop with
    | .acquiring c => ob.kind (st.calls c).m != .ref
    | _ => false
  if st.writer.isSome || waitingWriter then "write"
  else if st.readers != [] then "read" else "free"

end Sim

/-! ### linearizability of the real history (Wing–Gong search over the register) -/

structure LinOp where
  tag : Nat
  inv : Nat
  resp : Option Nat            -- none: no response (pending / failed / abandoned): may take effect any time after inv
  mutLike : Bool
  delta : Nat                  -- total effect on the register
  result : Option (Nat × Nat)  -- (v1, v2) to be checked

/-- `budget` bounds the number of search nodes; returns (found, budget left) -/
partial def wgl (ops : List LinOp) (v : Nat) (budget : Nat) : Bool × Nat :=
  if ops.isEmpty then (true, budget) else
  if budget == 0 then (false, 0) else
  -- an op is minimal if no other remaining op has responded before its invocation
  let minimal := ops.filter (fun o => ops.all (fun o' => o'.tag == o.tag || match o'.resp with
    | some r => !(r < o.inv)
    | none => true))
  let rec tryOps : List LinOp → Nat → Bool × Nat
    | [], b => (false, b)
    | o :: rest, b =>
      let v' := (v + o.delta) % two64
      let okRes := match o.result with
        | none => true
        | some (v1, v2) => if o.mutLike then v1 == v && v2 == v' else v1 == v && v2 == v
      if okRes then
        let (found, b') := wgl (ops.filter (·.tag != o.tag)) v' (b - 1)
        if found then (true, b') else tryOps rest b'
      else tryOps rest b
  -- ops without response and without effect can be dropped right away
  tryOps minimal (budget - 1)

/-! ### event handling -/

namespace Sim

def parseFlavour (f : String) : Flavour :=
  match f with
  | "value" => .value | "ref" => .ref | "refmut" => .refMut | "shared" => .shared | _ => .sharedMut

def onCase (variant : Variant) (name : String) (ws : List String) : Sim :=
  let tr := (kvGet ws "trait").getD "reg"
  let flavour := (kvGet ws "flavour").getD "refmut"
  let spawn := (kvNat ws "spawn").getD 0 == 1
  let cap := (kvNat ws "reqbuf").getD 1
  let init := (kvNat ws "init").getD 0
  let policyFail := (kvGet ws "policy").getD "ignore" == "fail"
  let specs := ((kvGet ws "clients").getD "L").splitOn ","
  let remote := specs.map (fun sp => sp.startsWith "R")
  let field (sp : String) (i : Nat) : Nat := (((sp.splitOn ":").drop i).head?.bind (·.toNat?)).getD 0
  let maxReq := specs.map (fun sp => field sp 1)
  let maxReply := specs.map (fun sp => field sp 2)
  let cfg : Cfg := { fl := parseFlavour flavour, spawn := spawn, cap := cap, failPolicy := policyFail,
                     remote := fun i => (remote.drop i).head?.getD false, nclients := specs.length, variant := variant }
  { name := name, tr := tr, flavour := flavour, spawn := spawn, cap := cap, init := init, policyFail := policyFail,
    remote := remote, maxReq := maxReq, maxReply := maxReply, cfg := cfg, st := some (Remoc.Rtc.init (RO tr init)),
    clientsAlive := specs.map (fun _ => true), lastValue := some init, exact := (kvNat ws "exact").getD 1 == 1 }

def onOpCall (s : Sim) (line : Nat) (ws : List String) : Sim :=
  match ws with
  | tagS :: rest =>
    let tag := tagS.toNat?.getD 0
    let cl := (kvNat rest "cl").getD 0
    let m := methodId ((kvGet rest "m").getD "get")
    let nseg := max 1 ((kvNat rest "nseg").getD 1)
    let by_ := (kvNat rest "by").getD 0
    let pad := (kvNat rest "pad").getD 0
    let rpad := (kvNat rest "rpad").getD 0
    let remote := (s.remote.drop cl).head?.getD false
    let mreq := (s.maxReq.drop cl).head?.getD 0
    let mrep := (s.maxReply.drop cl).head?.getD 0
    let bigReq := remote && mreq > 0 && pad ≥ mreq
    let bigReply := remote && mrep > 0 && rpad ≥ mrep
    let ci : CallInfo := { tag := tag, cl := cl, m := m, nseg := nseg, gated := (kvNat rest "gated").getD 1 == 1,
                           by_ := by_, bigReq := bigReq, bigReply := bigReply, remote := remote, invT := line,
                           afterStop := s.served.isSome, afterKill := s.killed && remote,
                           poisonedAtInv := s.poisonedCl.contains cl }
    let s := { s with calls := s.calls ++ [ci] }
    let s := if m ≥ 5 then { s with unknownIssued := true } else s
    let s := if bigReq && !s.killed && s.served.isNone && !s.poisonedCl.contains cl then { s with poisonedCl := s.poisonedCl ++ [cl] } else s
    let s := s.bump s!"call_m{m}"
    let s := if remote then s.bump "call_remote" else s.bump "call_local"
    let s := if bigReq then s.bump "oversize_request" else s
    let s := if bigReply then { s with bigReplyIssued := true }.bump "oversize_reply" else s
    if m ≥ 5 then s.bump "unknown_method" else s
  | _ => s

def onInv (s : Sim) (line : Nat) (tag : Nat) : Sim :=
  match s.getCall tag, s.st with
  | some ci, some st =>
    let a := encArg ci.by_ (ci.nseg - 1) ci.bigReq ci.bigReply
    let s := s.setCall { ci with mid := some st.n, invT := line }
    s.withModel line s!"model cannot issue call {tag} (clients gone)" (fun st => step s.cfg st (.issue ci.cl ci.m a))
  | some ci, none => s.setCall { ci with invT := line }
  | _, _ => s

/-- `ev seg <tag> x= k= m= v=` -/
def onSeg (s : Sim) (line : Nat) (tag : Nat) (ws : List String) : Sim :=
  let x := (kvNat ws "x").getD 0
  let k := (kvNat ws "k").getD 0
  let v := (kvNat ws "v").getD 0
  match s.getCall tag with
  | none => s.fail "c12" line s!"execution of an unknown call {tag}"
  | some ci =>
    -- the method executed by the callee is the one that was called
    let s := match kvGet ws "m" with
      | some mname => if methodId mname == ci.m then s else
          s.fail "c12" line s!"call {tag} executes method {mname} on the callee, not the method that was called"
      | none => s
    -- real-history monitors ---------------------------------------------------------------
    let s := if k == 0 then
        let s := if ci.xs != [] || ci.segs != [] then
          s.fail "c12" line s!"request {tag} is executed a second time (execution nonce {x})" else s
        let s := match s.usedX.find? (·.1 == x) with
          | some _ => s.fail "c12" line s!"execution nonce {x} reused"
          | none => { s with usedX := s.usedX ++ [(x, tag)] }
        -- exclusivity at start
        let others := s.active.filter (· != tag)
        let s := if isMutLike ci.m && others != [] then
          s.fail "c12" line s!"&mut/self execution of call {tag} starts while executions {others} of the same target are in progress"
        else s
        let mutActive := others.filter (fun t => match s.getCall t with | some c => isMutLike c.m | none => false)
        let s := if mutActive != [] then
          s.fail "c12" line s!"execution of call {tag} starts while &mut/self execution {mutActive} of the same target is in progress"
        else s
        let s := if ci.abandonSettled && s.o.cancellable ci.m then
          s.fail "c19" line s!"cancellable method of call {tag} starts although the caller abandoned the call before the previous quiescent point"
        else s
        { s with active := s.active ++ [tag] }
      else
        let s := if !ci.xs.contains x then s.fail "c12" line s!"segment {k} of call {tag} runs under a different execution nonce" else s
        let s := if ci.segs.length != k then s.fail "c12" line s!"segment {k} of call {tag} out of order (segments so far {ci.segs.length})" else s
        let s := if !s.active.contains tag then s.fail "c12" line s!"segment {k} of call {tag} after its execution ended" else s
        if ci.abandonSettled && s.o.cancellable ci.m then
          s.fail "c19" line s!"cancellable execution of call {tag} takes method step {k} although the caller abandoned the call before the previous quiescent point"
        else s
    -- value evolution: a &mut segment adds `by` to the value left by the previous segment event,
    -- a &self segment reads it
    let s := match s.lastValue with
      | some lv =>
        let expect := if isMutLike ci.m then (lv + ci.by_) % two64 else lv
        if v != expect then
          s.fail "c12" line s!"segment {k} of call {tag} sees register value {v}, expected {expect} (isolation / argument mix-up)"
        else s
      | none => s
    let s := { s with lastValue := some v }
    let s := if k ≥ ci.nseg then s.fail "c12" line s!"call {tag} executes more segments than its argument asks for" else s
    let ci' := { ci with xs := if ci.xs.contains x then ci.xs else ci.xs ++ [x], segs := ci.segs ++ [(k, v)],
                         startT := if k == 0 then line else ci.startT }
    let s := s.setCall ci'
    -- model --------------------------------------------------------------------------------
    match ci.mid with
    | none => s
    | some mid =>
      let s := if ci.gated && k ≥ 1 then
          if ci.permits == 0 then s.diff line s!"segment {k} of gated call {tag} ran without its gate being opened"
          else s.modCall tag (fun c => { c with permits := c.permits - 1 })
        else s
      let callerGone := ci.abandonT.isSome || (ci.remote && s.killed)
      s.withModelL line s!"model: execStep {tag} (segment {k}, value {v}) is not enabled / gives another value" (fun st =>
        if (st.calls mid).stage == .executing && (st.calls mid).pc != k then [] else
        let plain := (enable s.cfg st (.execStep mid) [mid] (fun st' => regValue st' == v) 64 (!s.exact)).toList
        -- a non-cancellable method keeps running after its caller is gone; whether the reply
        -- sender has already seen the closure when the result is handed over shows only later
        let closedFirst := if callerGone && !s.o.cancellable ci.m then
            match step s.cfg st (.closeSeen mid) with
            | some st1 => (enable s.cfg st1 (.execStep mid) [mid] (fun st' => regValue st' == v) 64 (!s.exact)).toList
            | none => []
          else []
        plain ++ closedFirst)


/-- `ev fin <tag> x= v1= v2=` -/
def onFin (s : Sim) (line : Nat) (tag : Nat) (ws : List String) : Sim :=
  let x := (kvNat ws "x").getD 0
  let v1 := (kvNat ws "v1").getD 0
  let v2 := (kvNat ws "v2").getD 0
  match s.getCall tag with
  | none => s
  | some ci =>
    let s := if !ci.xs.contains x then s.fail "c12" line s!"finish of call {tag} under a foreign execution nonce" else s
    let s := if ci.segs.length != ci.nseg then
      s.fail "c12" line s!"call {tag} finishes after {ci.segs.length} segments, its argument asks for {ci.nseg}" else s
    let s := if ci.fin.isSome then s.fail "c12" line s!"call {tag} finishes twice" else s
    let s := { (s.setCall { ci with fin := some (v1, v2), endT := some line }) with active := s.active.filter (· != tag) }
    let s := if ci.m == 4 then { s with valueMethodDone := true } else s
    match ci.mid with
    | some mid =>
      let r := v1 * two64 + v2
      s.withModel line s!"model: call {tag} has not finished with result ({v1},{v2})" (fun st =>
        if st.tr.any (fun e => match e with | .fin c _ _ r' => c == mid && r' == r | _ => false) then some st else none)
    | none => s

/-- `ev drop <tag> x= k=` -/
def onDrop (s : Sim) (line : Nat) (tag : Nat) (ws : List String) : Sim :=
  if s.cleanup then s else
  let k := (kvNat ws "k").getD 0
  match s.getCall tag with
  | none => s
  | some ci =>
    let s := { (s.setCall { ci with dropped := some k, endT := some line }) with active := s.active.filter (· != tag) }
    let s := if ci.m == 4 then { s with valueMethodDone := true } else s
    let s := s.bump "exec_cancelled"
    let s := if k != ci.segs.length then s.fail "c12" line s!"drop guard of call {tag} reports {k} segments, log has {ci.segs.length}" else s
    let s := if !s.o.cancellable ci.m then
      s.fail "c19" line s!"execution of non-cancellable method (call {tag}) was dropped after {k} segments" else s
    let s := if s.o.cancellable ci.m && ci.abandonT.isNone && !(ci.remote && s.killed) then
      s.fail "c19" line s!"execution of call {tag} was cancelled although its caller is still waiting" else s
    match ci.mid with
    | none => s
    | some mid =>
      s.withModel line s!"model: execCancel {tag} at segment {k} is not enabled" (fun st =>
        if (st.calls mid).stage == .executing && (st.calls mid).pc != k then none else
        enable s.cfg st (.execCancel mid) [mid] (fun _ => true) 64 (!s.exact))

/-- why may this call fail?  `none` = no reason -/
def errorCause (s : Sim) (ci : CallInfo) : Option String :=
  if ci.m ≥ 5 then some "unknown-method"
  else if ci.bigReq then some "oversize-request"
  else if ci.bigReply then some "oversize-reply"
  else if ci.remote && s.killed then some "connection-lost"
  else if s.valueMethodDone then some "target-consumed"
  else if s.ended then some "clients-dropped"
  else match s.served with
    | some r => if s.poisonedCl.contains ci.cl then some "F10"
                else if r == "err:reply-maxsize" && s.bigReplyIssued then some "F6" else if r.startsWith "err:req" && s.policyFail then some "policy-fail"
                else some "server-returned"
    | none => if s.poisonedCl.contains ci.cl then some "F10" else none

def allDropped (s : Sim) : Bool := s.clientsAlive.all (· == false)

/-- client handle `i` is gone -/
def dropClient (s : Sim) (line : Nat) (i : Nat) : Sim :=
  let s := { s with clientsAlive := (List.range s.clientsAlive.length).map (fun j => if j == i then false else (s.clientsAlive.drop j).head?.getD false) }
  if s.allDropped && !s.dropSent then
    { s with dropSent := true, ended := true }.withModel line "model: dropClients not enabled" (fun st => step s.cfg st .dropClients)
  else s

/-- the non-clonable `Fin` handle was moved into a by-value call: it is gone as soon as no call
of that client is outstanding any more -/
def finDrop (s : Sim) (line : Nat) (cl : Nat) : Sim :=
  if s.tr == "fin" && s.calls.any (fun c => c.cl == cl && c.m == 4)
      && s.calls.all (fun c => c.cl != cl || c.respT.isSome || c.abandonT.isSome) then
    s.dropClient line cl
  else s

def onRet0 (s : Sim) (line : Nat) (tag : Nat) (ws : List String) : Sim :=
  match s.getCall tag with
  | none => s
  | some ci =>
    match ws with
    | "ok" :: rest =>
      let rt := (kvNat rest "tag").getD 0
      let x := (kvNat rest "x").getD 0
      let v1 := (kvNat rest "v1").getD 0
      let v2 := (kvNat rest "v2").getD 0
      let s := s.setCall { ci with respT := some line, value := some (v1, v2) }
      let s := s.bump "ret_value"
      let s := if rt != tag then s.fail "c12" line s!"call {tag} receives the reply produced for call {rt}" else s
      let s := if ci.abandonT.isSome then s.fail "c12" line s!"call {tag} returns after its future was dropped" else s
      let s := if !ci.xs.contains x then
          s.fail "c12" line s!"call {tag} receives a reply from execution nonce {x}, which did not execute its request"
        else if ci.fin != some (v1, v2) then
          s.fail "c12" line s!"call {tag} receives ({v1},{v2}), its execution finished with {repr ci.fin}"
        else s
      match ci.mid with
      | none => s
      | some mid =>
        s.withModel line s!"model: recvReply {tag} with value ({v1},{v2}) is not enabled" (fun st =>
          enable s.cfg st (.recvReply mid) [mid] (fun st' => (st'.calls mid).cl == .value (v1 * two64 + v2)) 64 (!s.exact))
    | "err" :: cls :: _ =>
      let s := s.setCall { ci with respT := some line, err := some cls }
      let s := s.bump s!"ret_err_{cls}"
      let s := match s.errorCause ci with
        | some "F6" => s.fail "c19" line s!"call {tag} ({cls}) fails only because serve had returned after an over-size reply to another call (server stopped for all clients)"
        | some "F10" => s.fail "c19" line s!"call {tag} with a fitting request fails ({cls}) after an earlier over-size request of the same client (client channel permanently failed)"
        | some "server-returned" => s.fail "c19" line s!"call {tag} fails ({cls}) because serve had returned"
        | some _ => s
        | none => s.fail "c19" line s!"call {tag} fails ({cls}) without a reason: known method, sizes within limits, caller waiting, connection up, server running"
      if cls == "unsupported" || cls == "consumed" then s else
      match ci.mid with
      | none => s
      | some mid =>
        s.withModel line s!"model: recvReply {tag} with an error is not enabled" (fun st =>
          enable s.cfg st (.recvReply mid) [mid] (fun st' => (st'.calls mid).cl == .error) 64 (!s.exact))
    | _ => s

def onRet (s : Sim) (line : Nat) (tag : Nat) (ws : List String) : Sim :=
  let s := s.onRet0 line tag ws
  match s.getCall tag with
  | some ci => s.finDrop line ci.cl
  | none => s

def onAbandon (s : Sim) (line : Nat) (tag : Nat) : Sim :=
  match s.getCall tag with
  | none => s
  | some ci =>
    let s := s.setCall { ci with abandonT := some line }
    let s := s.bump "abandon"
    let s := s.finDrop line ci.cl
    match ci.mid with
    | none => s
    | some mid =>
      s.withModel line s!"model: abandon {tag} is not enabled" (fun st =>
        let stage := (st.calls mid).stage
        let s' := if stage == .sending then s.bump "abandon_before_queueing" else s
        let _ := s'
        -- "before queueing" is decided by the model only where it tracks the queue exactly: one
        -- stimulus per quiescent point (free mode never fills the request buffer)
        if !ci.remote && stage == .sending && s.exact then step s.cfg st (.abandonEarly mid) else step s.cfg st (.abandon mid))

def onServed (s : Sim) (line : Nat) (res : String) (target : String) : Sim :=
  let s := { s with served := some res, servedT := line }
  let s := s.bump s!"served_{(res.splitOn ":").head!}"
  let lostAll := (List.range s.clientsAlive.length).all (fun j => !((s.clientsAlive.drop j).head?.getD false) || s.poisonedCl.contains j)
  let s :=
    if !s.ended && !s.valueMethodDone && lostAll && s.poisonedCl != [] && !(res.startsWith "err:req") then
      s.fail "c19" line s!"serve returned {res} because the last usable client was lost after an over-size request of that client (client channel permanently failed)"
    else if res.startsWith "err:reply" then
      if s.ended || s.valueMethodDone then s
      else if res == "err:reply-maxsize" && s.bigReplyIssued then
        s.fail "c19" line s!"serve returned {res} after an over-size reply while clients are still connected: the server stops for all clients"
      else s.fail "c19" line s!"serve returned {res} although no reply exceeded its size limit and clients are still connected"
    else if res.startsWith "err:req" then
      if s.policyFail && s.unknownIssued then s else
      s.fail "c19" line s!"serve returned {res} although undecodable requests are to be ignored"
    else if res == "ok" && target == "none" then
      if s.valueMethodDone then s else s.fail "c19" line "serve returned without target although no by-value method ran"
    else if s.ended then s
    else s.fail "c19" line s!"serve returned {res} although clients are alive"
  s.withModel line s!"model: serve does not return {res} here" (fun st =>
    if res.startsWith "err:reply" then
      -- after the loop has ended (`self` method, clients gone) `serve` still reports a reply error
      if modelServe st == "ok:none" || modelServe st == "ok" then some st
      else if s.cfg.variant == .fixed then enable s.cfg st .serveEnd [] (fun st' => modelServe st' == "err:reply-maxsize") 64
      else enable s.cfg st .serveErr [] (fun _ => true) 64
    else if res == "ok" && target == "none" then (if modelServe st == "ok:none" then some st else none)
    else if res.startsWith "err:req" then enableUntil s.cfg st (fun st' => modelServe st' == "err:req-deserialize") 64
    else if res == "ok" then
      match enable s.cfg st .serveEnd [] (fun _ => true) 64 with
      | some st' =>
        -- `Server::serve` hands the target back: compare the register
        match target.toNat? with
        | some v => if v == regValue st' then some st' else none
        | none => some st'
      | none => none
    else none)

def onSettled (s : Sim) (line : Nat) (ws : List String) : Sim :=
  let serve := (kvGet ws "serve").getD "?"
  let lock := (kvGet ws "lock").getD "na"
  let pendingAll : List Nat := match kvGet ws "pending" with
    | some "-" => []
    | some t => (t.splitOn ",").filterMap (·.toNat?)
    | none => []
  -- only calls that have started (a `Fin` call may still wait for its client handle)
  -- (a call whose caller is not polling it at the moment says nothing about the server)
  let pendingReal := pendingAll.filter (fun t => ((s.getCall t).bind (·.mid)).isSome && !s.parked.contains t)
  -- c19 on the real history ----------------------------------------------------------------
  let s := s.calls.foldl (fun s ci =>
    if ci.abandonT.isSome && !ci.abandonSettled then
      let s := s.modCall ci.tag (fun c => { c with abandonSettled := true })
      if s.active.contains ci.tag && s.o.cancellable ci.m then
        s.fail "c19" line s!"cancellable execution of call {ci.tag} is still in progress at the quiescent point after its caller abandoned the call"
      else s
    else s) s
  let s := if s.killed then s.calls.foldl (fun s ci =>
      if ci.remote && s.active.contains ci.tag && s.o.cancellable ci.m then
        s.fail "c19" line s!"cancellable execution of call {ci.tag} is still in progress at the quiescent point after the connection to its caller was lost"
      else s) s else s
  let lockKind := (lock.splitOn ":").head!
  let lockVal := ((lock.splitOn ":").drop 1).head?.bind (·.toNat?)
  let s := if lockKind != "na" && s.active == [] && lockKind != "free" then
      s.fail "c19" line s!"target lock is {lockKind}-held at a quiescent point although no execution is in progress"
    else s
  let s := match lockVal, s.lastValue with
    | some v, some lv => if v != lv then s.fail "c12" line s!"register holds {v} at a quiescent point, the execution log says {lv}" else s
    | _, _ => s
  let s := if s.active == [] && serve == "running" && !s.cleanup then
      pendingReal.foldl (fun s t => match s.getCall t with
        | some ci => if ci.abandonT.isNone then
            s.fail "c19" line s!"call {t} is pending at a quiescent point although the server is running and no execution is in progress"
          else s
        | none => s) s
    else s
  -- model ------------------------------------------------------------------------------------
  if s.st.isNone then s else
  -- requests enter the queue in issue order only where every stimulus was followed by a
  -- quiescent point; in bursts the arrival order is whatever the later events show
  let target := (kvGet ws "target").getD "na"
  let closed := s.states.flatMap (fun st0 =>
    if s.exact then [closure s.cfg st0 true 400] else [closure s.cfg st0 false 400, closure s.cfg st0 true 400])
  let judged := closed.map (fun st =>
    -- (the caller of a parked call does not take its reply for the moment: an environment choice)
    let parkedMids := (s.calls.filter (fun ci => s.parked.contains ci.tag)).filterMap (·.mid)
    let vis := (visibleEnabled s.cfg s.calls st).filter (fun l => match l with
      | .recvReply m => !parkedMids.contains m
      | _ => true)
    let d1 := if vis != [] then [s!"the real system is quiescent but the model can still take {vis.map (showLabel s.calls)}"] else []
    let pendingModel := ((s.calls.filter (fun ci => match ci.mid with
      | some mid => (st.calls mid).cl == .waiting
      | none => false)).map (·.tag)).filter (fun t => !s.parked.contains t)
    let d2 := if pendingModel != pendingReal then [s!"pending calls differ: real {pendingReal}, model {pendingModel}"] else []
    let ms := modelServe st
    let serveCls := if serve == "ok" && target == "none" then "ok:none" else serve
    let serveCls := if serveCls.startsWith "err:reply" && (ms == "ok:none" || ms == "ok") then ms else serveCls
    -- (`serve` ends only when its reply transmissions have ended; to a local caller that does not take its
    -- reply at the moment the transmission has not ended: not compared while a call is parked)
    let d3 := if ms != serveCls && s.parked.isEmpty then [s!"serve status differs: real {serve}, model {ms}"] else []
    let ml := modelLock s.flavour st
    -- in bursts the model leaves requests whose arrival order is not determined outside the queue
    let undecided := !s.exact && (List.range st.n).any (fun c => (st.calls c).stage == .sending)
    let d4 := if ml != lockKind && !undecided then [s!"lock state differs: real {lock}, model {ml}"] else []
    let d5 := match lockVal with
      | some v => if v != regValue st then [s!"register value differs: real {v}, model {regValue st}"] else []
      | none => []
    (st, d1 ++ d2 ++ d3 ++ d4 ++ d5))
  let good := judged.filter (fun p => p.2.isEmpty)
  if !good.isEmpty then s.setStates (good.map (·.1))
  else
    let s := s.setStates (judged.map (·.1))
    match judged with
    | (_, ds) :: _ => ds.foldl (fun s d => s.diff line d) s
    | [] => s

def onOp (s : Sim) (line : Nat) (ws : List String) : Sim :=
  match ws with
  | "call" :: rest => s.onOpCall line rest
  | ["step", t] =>
    let tag := t.toNat?.getD 0
    (s.modCall tag (fun c => { c with permits := c.permits + 1 })).bump "step"
  | ["abort", _] => s
  | ["yield", _] => s.bump "yield"
  | ["settle"] => s
  | ["kill"] =>
    let s := { s with killed := true }
    let s := s.bump "kill"
    let s := s.withModel line "model: connLoss not enabled" (fun st => match step s.cfg st .connLoss with
      | some st' => some st'
      | none => some st)
    let inFlight := match s.st with
      | some st => s.calls.any (fun ci => ci.remote && match ci.mid with
          | some mid => (st.calls mid).stage == .sending
          | none => false)
      | none => false
    let s := if !s.exact || inFlight then { s with fuzzy := true }.bump "accept_suspended_after_kill" else s
    -- the handles behind the connection are dead now
    let s := { s with clientsAlive := (List.range s.clientsAlive.length).map (fun j =>
      (s.clientsAlive.drop j).head?.getD false && !((s.remote.drop j).head?.getD false)) }
    if s.allDropped then { s with ended := true } else s
  | ["dropclient", i] => s.dropClient line (i.toNat?.getD 0)
  | ["end"] =>
    let s := { s with ended := true, clientsAlive := s.clientsAlive.map (fun _ => false) }
    if !s.dropSent then
      { s with dropSent := true }.withModel line "model: dropClients not enabled" (fun st => step s.cfg st .dropClients)
    else s
  | _ => s

/-- linearizability of the client-side history -/
def checkLin (s : Sim) (line : Nat) : Sim :=
  let ops : List LinOp := s.calls.filterMap (fun ci =>
    match ci.value with
    | some (v1, v2) =>
      -- completed call: full effect with the arguments passed
      some { tag := ci.tag, inv := ci.invT, resp := ci.respT, mutLike := isMutLike ci.m,
             delta := if isMutLike ci.m then ci.nseg * ci.by_ else 0, result := some (v1, v2) }
    | none =>
      -- no value outcome: whatever the execution log says was executed took effect at some point
      if isMutLike ci.m && ci.segs.length > 0 && ci.by_ > 0 then
        some { tag := ci.tag, inv := ci.invT, resp := none, mutLike := true, delta := ci.segs.length * ci.by_, result := none }
      else none)
  if ops.isEmpty then s else
  let (found, left) := wgl ops s.init 200000
  if found then s.bump "lin_checked"
  else if left == 0 then s.bump "lin_budget_exhausted"
  else
    let hist := ops.map (fun o => s!"[{o.tag} inv={o.inv} resp={repr o.resp} {if o.mutLike then "add" else "get"} delta={o.delta} res={repr o.result}]")
    s.fail "c12" line s!"history of completed calls is not linearizable for the register (init {s.init}): {hist}"

def finish (s : Sim) (line : Nat) : Sim :=
  let s := s.checkLin line
  -- value outcome ⇒ exactly one complete execution
  s.calls.foldl (fun s ci =>
    match ci.value with
    | some _ => if ci.xs.length != 1 || ci.fin.isNone then
        s.fail "c12" line s!"call {ci.tag} has a value outcome but {ci.xs.length} executions / no finished execution" else s
    | none => if ci.xs.length > 1 then s.fail "c12" line s!"call {ci.tag} was executed {ci.xs.length} times" else s) s

end Sim

structure RunAcc where
  sim : Sim := {}
  cases : Nat := 0
  variant : Variant := .pinned

def finishCase (s : Sim) : IO Unit := do
  if s.name != "" then
    for l in s.out do IO.println l
    let b := fun (x : Bool) => if x then "ok" else "FAIL"
    let stats := " ".intercalate (s.stats.map (fun p => s!"{p.1}={p.2}"))
    IO.println s!"END {s.name} events={s.events} accept={if s.acceptOk then "ok" else "mismatch"} c12={b s.c12} c19={b s.c19} calls={s.calls.length} {stats}"

def stepLine (a : RunAcc) (n : Nat) (line : String) : IO RunAcc := do
  let ws := words line
  let s := { a.sim with events := a.sim.events + 1 }
  match ws with
  | "case" :: name :: rest =>
    finishCase a.sim
    return { a with sim := Sim.onCase a.variant name rest, cases := a.cases + 1 }
  | "op" :: rest => return { a with sim := s.onOp n rest }
  | ["ev", "inv", t] => return { a with sim := s.onInv n (t.toNat?.getD 0) }
  | "ev" :: "seg" :: t :: rest => return { a with sim := s.onSeg n (t.toNat?.getD 0) rest }
  | "ev" :: "fin" :: t :: rest => return { a with sim := s.onFin n (t.toNat?.getD 0) rest }
  | "ev" :: "drop" :: t :: rest => return { a with sim := s.onDrop n (t.toNat?.getD 0) rest }
  | "ev" :: "ret" :: t :: rest => return { a with sim := s.onRet n (t.toNat?.getD 0) rest }
  | ["ev", "abandon", t] => return { a with sim := s.onAbandon n (t.toNat?.getD 0) }
  | "ev" :: "served" :: r :: rest => return { a with sim := s.onServed n r ((kvGet rest "target").getD "na") }
  | ["ev", "livelock"] => return { a with sim := s.fail "c19" n "the process never becomes quiescent (a task keeps running without making progress, e.g. a serve loop spinning on the same receive error)" }
  | ["ev", "park", t] => return { a with sim := { s with parked := s.parked ++ [t.toNat?.getD 0] } }
  | ["ev", "unpark", t] => return { a with sim := { s with parked := s.parked.filter (· != t.toNat?.getD 0) } }
  | ["ev", "hang", t] => return { a with sim := s.fail "c19" n s!"call {t} never completes (still pending when nothing in the process can run)" }
  | "settled" :: rest => return { a with sim := s.onSettled n rest }
  | ["cleanup"] => return { a with sim := { s with cleanup := true } }
  | ["endcase"] => return { a with sim := s.finish n }
  | "panic" :: rest => return { a with sim := s.fail "c12" n ("panic " ++ " ".intercalate rest) }
  | _ => return { a with sim := s }

/-- `rtc` replays against the pinned error handling (a reply error makes `serve` return, F6);
`rtc fixed` against the repaired one (`Variant.fixed`) -/
def main (args : List String) : IO Unit := do
  let stdin ← IO.getStdin
  let variant : Variant := if args.contains "fixed" then .fixed else .pinned
  lineLoop stdin ({ variant := variant } : RunAcc) 1 stepLine (fun a => do
    finishCase a.sim
    IO.println s!"DONE cases={a.cases}")
