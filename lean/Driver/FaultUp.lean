import RemocModel.Conn.Model
import Driver.Util
/-
Driver for the fail-stop correspondence of the layers above raw ports (C06, harness `faultup`): traces of
one workload over two real `remoc::Connect::framed` endpoints (rch::mpsc / oneshot / watch / broadcast /
bin / lr, an rtc client with calls in flight, an robs mirror, a remote RwLock, Lazy values) with a transport
fault scheduled at one item index.  Every API call is a `call <k> <side> <kind> .. t=<ms>` /
`ret <k> <result> t=<ms>` pair under a virtual clock.

Checks on the real observations (`FAIL <trace> c06 ..`), with T_dead(X) = instant at which the dispatcher of
side X ended:
  - both dispatchers end with an error within timeout_A + timeout_B after the fault, the one that is shown a sink /
    stream error or the end of the stream at once;
  - no call is pending at the end (after one more hour of virtual time: the hang detector);
  - every call of side X returns by max(its start, T_dead(X)) (+ 5 ms for the settle granularity): pending
    calls are released when the dispatcher ends, later calls return without waiting;
  - a call that was pending across, or started after, T_dead(X) (by the order of the trace lines) returns an error if
    it is a send-like call (send, remote call, write, blocked sender; success only in the very instant of T_dead: an
    answer that was delivered just before); a receive-like call returns an error or a value that had been
    delivered before; a clean end of stream is accepted only after the error has been reported on that handle
    (or when the value carrying the channel halves was never sent: the harness dropped the halves);
  - no failure is reported as a data error (serialisation / deserialisation / size);
  - per channel, what was received is a prefix of what was sent (mpsc: per sender, no duplicates; watch: in
    order, repetitions allowed; mirror: a prefix of the pushes; lazy: the value);
  - nothing panicked, no wire livelock;
  - without a fault: no dispatcher ends, no call fails.
and compares the class of each dispatcher result with `Remoc.Conn.runLoop` on the observed fault (`DIFF`): the
endpoint that is shown the fault ends with its class, the other one with `timeout`.
Output: `END <trace> events=<n> replay=<ok|mismatch> c06=<ok|FAIL> fired=<0|1> calls=<n> judged=<n>`.
-/
open Driver Remoc.Conn

abbrev AL (α : Type) := List (String × α)
def AL.get? {α} (m : AL α) (k : String) : Option α := (m.find? (·.1 == k)).map (·.2)
def AL.set {α} (m : AL α) (k : String) (v : α) : AL α :=
  if m.any (·.1 == k) then m.map (fun p => if p.1 == k then (k, v) else p) else m ++ [(k, v)]

def kvGet (ws : List String) (key : String) : Option String :=
  (ws.find? (·.startsWith (key ++ "="))).map (fun w => (w.drop (key.length + 1)).toString)
def kvNat (ws : List String) (key : String) : Option Nat := (kvGet ws key).bind (·.toNat?)

structure Call where
  k : String
  side : String
  kind : String
  ch : String
  t0 : Nat
  t1 : Option Nat := none
  res : List String := []
  /-- the call line / the ret line came after the `run` line of the call's side -/
  startedDead : Bool := false
  returnedDead : Bool := false

inductive KindClass where
  | sendLike | recvLike | unitLike | other
deriving DecidableEq

def classOf (kind : String) : KindClass :=
  if ["mpsc-send", "mpsc-fill", "lr-send", "bin-send", "rtc-call", "rw-write", "watch-send", "bc-send",
      "oneshot-send", "base-send", "connect"].contains kind then .sendLike
  else if ["mpsc-recv", "oneshot-recv", "watch-changed", "watch-borrow", "bc-recv", "bin-recv", "lr-recv",
           "lazy-get", "mirror-borrow", "rw-read", "base-recv"].contains kind then .recvLike
  else if ["mpsc-closed", "mirror-changed", "rtc-serve"].contains kind then .unitLike
  else .other

structure USim where
  name : String := ""
  events : Nat := 0
  timeouts : AL Nat := []
  fault : Option (String × Nat) := none       -- (kind, t) of the first fault that fired
  faultObs : String := ""                      -- the side that is shown it
  planKind : String := ""
  replayOk : Bool := true
  dead : AL (String × Nat) := []              -- side ↦ (class, t)
  calls : List Call := []
  puts : AL (List (String × Nat)) := []       -- channel ↦ (sender, value) in start order
  gots : AL (List Nat) := []
  pendingEnd : String := "-"
  ended : Bool := false
  /-- items delivered by the wires after the first fault fired -/
  rxAfterFault : Nat := 0
  deliveredBefore : Nat := 0
  c06 : Bool := true
  judged : Nat := 0
  out : List String := []

def USim.diff (s : USim) (line : Nat) (what : String) : USim :=
  { s with replayOk := false, out := if s.out.length < 12 then s.out ++ [s!"DIFF {s.name} line={line} {what}"] else s.out }

def resOfText (t : String) : Res :=
  if t.startsWith "sink" then .sink else if t.startsWith "stream" then .stream else if t.startsWith "closed" then .closed
  else if t.startsWith "timeout" then .timeout else if t.startsWith "protocol" then .protocol else if t.startsWith "reset" then .reset
  else if t.startsWith "ok" then .ok else .running

def evOfKind (k : String) : Ev :=
  if k == "sink" then .sinkError else if k == "stream" then .streamError else if k == "eof" then .streamClosed else .timeout

def USim.fail (s : USim) (line : Nat) (what : String) : USim :=
  { s with c06 := false, out := if s.out.length < 12 then s.out ++ [s!"FAIL {s.name} c06 line={line} {what}"] else s.out }

def isPrefixN : List Nat → List Nat → Bool
  | [], _ => true
  | _ :: _, [] => false
  | a :: as, b :: bs => a == b && isPrefixN as bs

/-- `xs` visits positions of `ys` in non-decreasing order (every element of `xs` occurs in `ys`) -/
def inOrder (xs ys : List Nat) : Bool :=
  let rec go (fuel : Nat) (xs ys : List Nat) : Bool :=
    match fuel, xs, ys with
    | 0, _, _ => false
    | _, [], _ => true
    | _, _ :: _, [] => false
    | f + 1, x :: xs', y :: ys' => if x == y then go f xs' (y :: ys') else go f (x :: xs') ys'
  go (xs.length + ys.length + 1) xs ys

def hasDup : List Nat → Bool
  | [] => false
  | a :: as => as.contains a || hasDup as

def dataError (res : List String) : Bool :=
  let t := " ".intercalate res
  (t.splitOn "Serializ").length > 1 || (t.splitOn "serializ").length > 1 || (t.splitOn "MaxItemSize").length > 1 ||
  (t.splitOn "ExceedsMax").length > 1

def USim.checkChannels (s : USim) (line : Nat) : USim :=
  s.gots.foldl (fun s (ch, got) =>
    let sent := (s.puts.get? ch).getD []
    let vals := sent.map (·.2)
    if ch.startsWith "m" && ch != "mirror" then
      -- mpsc: per sender a prefix, nothing invented, nothing twice
      let senders := (sent.map (·.1)).eraseDups
      let s := if hasDup got then s.fail line s!"channel {ch}: a value was delivered twice: {got}" else s
      let s := if got.all vals.contains then s else s.fail line s!"channel {ch}: received {got}, sent only {vals}"
      senders.foldl (fun s snd =>
        let mine := (sent.filter (·.1 == snd)).map (·.2)
        let gotMine := got.filter mine.contains
        if isPrefixN gotMine mine then s
        else s.fail line s!"channel {ch} sender {snd}: received {gotMine} is not a prefix of what it sent {mine}") s
    else if ch.startsWith "w" then
      if inOrder got (0 :: vals) then s else s.fail line s!"watch {ch}: observed {got} is not in the order of the values sent {vals}"
    else if ch.startsWith "lazy" then
      let expect := if ch == "lazy1" then 40 else 70
      if got.all (· == expect) then s else s.fail line s!"{ch}: fetched a value of length {got}, the provider holds {expect}"
    else
      if isPrefixN got vals then s else s.fail line s!"channel {ch}: received {got} is not a prefix of what was sent {vals}") s

def USim.finish (s : USim) (line : Nat) : USim :=
  let s := s.checkChannels line
  let connected : List String := (s.calls.filter (·.kind == "connect")).map (·.side)
  match s.fault with
  | none =>
    let s := if !s.dead.isEmpty then s.fail line s!"no transport fault occurred but dispatchers ended: {s.dead.map (fun (x, c, _) => x ++ "=" ++ c)}" else s
    s.calls.foldl (fun s c =>
      match c.res with
      | "err" :: _ => s.fail line s!"no transport fault occurred but call {c.k} ({c.kind} on {c.side}) failed: {" ".intercalate c.res}"
      | _ => s) s
  | some (kind, tf) =>
    let ta := (s.timeouts.get? "A").getD 0
    let tb := (s.timeouts.get? "B").getD 0
    -- every item that was still delivered after the fault re-armed a receive timer (wires with latency: one per ms)
    let bound := tf + ta + tb + 20 + s.rxAfterFault
    -- dispatchers
    let s := connected.foldl (fun s x =>
      match s.dead.get? x with
      | none => s.fail line s!"dispatcher {x} never ended after the {kind} fault at t={tf}"
      | some (cls, t) =>
        let s := if cls == "ok" then s.fail line s!"dispatcher {x} ended with Ok after the {kind} fault" else s
        -- classification against the model of the run loop (not for a two-sided stall, where either side may be first,
        -- nor for a cut inside `Connect::framed`, whose error is that of the connect call)
        let expected : Res := if x == s.faultObs then runLoop [Ev.work, evOfKind kind] else runLoop [Ev.work, Ev.work, Ev.timeout]
        let s := if cls != "failed-in-connect" && s.planKind != "stallboth" && resOfText cls != expected then
            s.diff line s!"dispatcher {x}: the model's run loop ends with {repr expected}, the real one with '{cls}'" else s
        -- the endpoint that is shown an error (not a silent stall) ends at once, not at its timeout
        let s := if x == s.faultObs && (kind == "sink" || kind == "stream" || kind == "eof") && t > tf + 5 then
            s.fail line s!"dispatcher {x} was shown the {kind} fault at t={tf} and ended only at t={t}: not as soon as it could observe the fault" else s
        if t > bound then s.fail line s!"dispatcher {x} ended {t - tf} ms after the {kind} fault, more than timeout_A + timeout_B = {ta + tb} ms" else s) s
    -- hangs
    let s := if s.pendingEnd != "-" then s.fail line s!"after a {kind} fault these calls never returned: {s.pendingEnd}" else s
    -- every call
    s.calls.foldl (fun s c =>
      match c.t1, s.dead.get? c.side with
      | some t1, some (_, td) =>
        let s := if t1 > (max c.t0 td) + 5 then
            s.fail line s!"call {c.k} ({c.kind} on {c.side}) started at {c.t0}, its dispatcher ended at {td}, it returned only at {t1}" else s
        let later := c.startedDead
        let across := !c.startedDead && c.returnedDead
        if !(later || across) then s else
        let s := { s with judged := s.judged + 1 }
        let isErr := c.res.head? == some "err"
        let s := if isErr && dataError c.res then
            s.fail line s!"call {c.k} ({c.kind} on {c.side}) reports the connection failure as a data error: {" ".intercalate c.res}" else s
        match classOf c.kind with
        | .sendLike =>
          -- success is possible only for a call whose completion was already under way when the dispatcher ended
          -- (an answer delivered in the same instant): it returns in that very instant
          if isErr || (across && t1 ≤ td) then s else
          s.fail line s!"call {c.k} ({c.kind} on {c.side}) {if later then "started after" else "was pending when"} its dispatcher ended and returned '{" ".intercalate c.res}' instead of an error"
        | .recvLike =>
          if isErr || c.res.head? == some "ok" || c.res.head? == some "gone" then s
          else if c.res.head? == some "none" then
            -- a clean end only after the error has been reported on this handle
            -- if the transfer of the channel halves itself failed, the halves inside the unsent value were
            -- dropped by the harness together with the error: a clean end is then the truth
            let xferOk := s.calls.any (fun d => d.k == "xfer-send" && d.res.head? == some "ok")
            let earlier := !xferOk || s.calls.any (fun d => d.side == c.side && d.ch == c.ch && classOf d.kind == .recvLike &&
              d.res.head? == some "err" && (match d.t1 with | some u => u ≤ t1 | none => false))
            if earlier then s else
            s.fail line s!"call {c.k} ({c.kind} on {c.side}) reports a clean end of stream after the connection failure, no error was reported on that handle before"
          else s.fail line s!"call {c.k} ({c.kind} on {c.side}) returned '{" ".intercalate c.res}' after the connection failure"
        | _ => s
      | _, _ => s) s

structure UAcc where
  sim : USim := {}
  traces : Nat := 0

def finishTrace (s : USim) : IO Unit := do
  if s.name != "" then
    let s := if s.ended then s else s.fail 0 "trace has no end line (harness died)"
    for l in s.out do IO.println l
    IO.println s!"END {s.name} events={s.events} replay={if s.replayOk then "ok" else "mismatch"} c06={if s.c06 then "ok" else "FAIL"} fired={if s.fault.isSome then 1 else 0} calls={s.calls.length} judged={s.judged}"

def stepLine (a : UAcc) (n : Nat) (line : String) : IO UAcc := do
  let ws := words line
  let s := { a.sim with events := a.sim.events + 1 }
  match ws with
  | ["trace", name] =>
    finishTrace a.sim
    return { sim := { name := name }, traces := a.traces + 1 }
  | "cfg" :: x :: rest =>
    return { a with sim := { s with timeouts := s.timeouts.set x ((kvNat rest "timeout").getD 0) } }
  | "plan" :: rest => return { a with sim := { s with planKind := (kvGet rest "kind").getD "" } }
  | "fault" :: obs :: kind :: rest =>
    let t := (kvNat rest "t").getD 0
    return { a with sim := match s.fault with
      | some _ => s
      | none => { s with fault := some (kind, t), faultObs := obs } }
  | "run" :: x :: cls :: rest =>
    let t := (kvNat rest "t").getD 0
    return { a with sim := { s with dead := if (s.dead.get? x).isSome then s.dead else s.dead.set x (cls, t) } }
  | "call" :: k :: x :: kind :: rest =>
    let c : Call := { k := k, side := x, kind := kind, ch := (kvGet rest "ch").getD "-", t0 := (kvNat rest "t").getD 0,
                      startedDead := (s.dead.get? x).isSome }
    return { a with sim := { s with calls := s.calls ++ [c] } }
  | "ret" :: k :: rest =>
    let t := (kvNat rest "t").getD 0
    let res := rest.filter (fun w => !w.startsWith "t=")
    return { a with sim := { s with calls := s.calls.map (fun c =>
      if c.k == k && c.t1.isNone then { c with t1 := some t, res := res, returnedDead := (s.dead.get? c.side).isSome } else c) } }
  | ["wires", wa, wb] =>
    -- `wires A=<sent>/<delivered> B=<sent>/<delivered>`: deliveries since the last line seen before the fault bound
    -- what the wires still handed over after it
    let dl (w : String) : Nat := (((w.splitOn "/").getD 1 "0").toNat?).getD 0
    let d := dl wa + dl wb
    return { a with sim := if s.fault.isSome then { s with rxAfterFault := d - s.deliveredBefore }
                           else { s with deliveredBefore := d } }
  | ["put", ch, snd, v] =>
    let v := v.toNat?.getD 0
    return { a with sim := { s with puts := s.puts.set ch (((s.puts.get? ch).getD []) ++ [(snd, v)]) } }
  | ["got", ch, v] =>
    let v := v.toNat?.getD 0
    return { a with sim := { s with gots := s.gots.set ch (((s.gots.get? ch).getD []) ++ [v]) } }
  | ["mirror", ch, l] =>
    let got := (parseNatList l).getD []
    let pushed := ((s.puts.get? ch).getD []).map (·.2)
    let s := if isPrefixN got pushed then s else s.fail n s!"mirror of {ch} shows {got}, which is not a prefix of the pushes {pushed}"
    return { a with sim := s }
  | "panic" :: rest => return { a with sim := s.fail n ("panic: " ++ " ".intercalate rest) }
  | "livelock" :: rest => return { a with sim := s.fail n ("wire livelock: " ++ " ".intercalate rest) }
  | "end" :: rest =>
    let s := { s with pendingEnd := (kvGet rest "pending").getD "-", ended := true }
    return { a with sim := s.finish n }
  | _ => return { a with sim := s }

def main : IO Unit := do
  let stdin ← IO.getStdin
  lineLoop stdin ({} : UAcc) 1 stepLine (fun a => do
    finishTrace a.sim
    IO.println s!"DONE traces={a.traces}")
