import RemocModel.RwLock.Model
import Driver.Util
/-
Driver for C17 (remote read/write lock): reads traces produced by the `rwlock` harness (the real
`remoc::robj::rw_lock` with lock clones on several endpoints) and, per trace,

 (i)  evaluates the property predicates directly on the real, totally ordered event log,
      independently of the model:
        excl   no write guard interval overlaps a read guard interval or another write guard
               interval (guards of endpoints whose connection was cut stop counting at the cut);
               a read guard's value does not change while it is held;
        fresh  every value observed by a read guard (and by a write guard) is a value that was
               the latest committed at some instant between the start of the request and the
               acquisition; commit instants are only known as intervals `[wcommit, wdone]`, the
               check accepts exactly the values possible under some placement; this also is the
               durability check (late reads must see the last commit that returned `Ok`);
        drop   the scribbled value of a dropped write guard is never observed;
        err    no request or commit fails while the owner is alive and the connection is up;
        hang   no operation is pending after all guards were released and the system settled;
               a hang is classified by shape (`shape=`), so that the known deadlock F5 can be
               told from any other hang;
 (ii) for traces generated in exact mode (every stimulus followed by a settle) *replays* the
      stimuli on M_rwlock (`Remoc.RwLock.step`), runs the model's internal labels to quiescence
      at every settle (deterministic policy: invalidation delivery and monitor wake-ups first,
      then message receipts, the owner with the write branch first — `select! biased` —, then
      the waiters of each cache lock in arrival order — tokio's `RwLock` is FIFO) and compares
      the state of every open operation and every observed value.
 (iii) for a `model <labels>` line (corpus witness) runs the given schedule on the model variant
      under test, closes all guards, settles, and compares deadlock / completion with the real
      outcome of the same trace.

usage: rwlock <pinned|fixed>
Output: `DIFF <trace> <what>`, `FAIL <trace> <pred> <what>`,
        `END <trace> events=<n> replay=<ok|mismatch|skipped> excl=.. fresh=.. drop=.. hang=..`.
-/
open Driver
open Remoc.RwLock

abbrev NMap (α : Type) := List (Nat × α)
def NMap.get? {α} (m : NMap α) (k : Nat) : Option α := (m.find? (·.1 == k)).map (·.2)
def NMap.set {α} (m : NMap α) (k : Nat) (v : α) : NMap α :=
  if m.any (·.1 == k) then m.map (fun p => if p.1 == k then (k, v) else p) else (k, v) :: m

/-- what is known about one operation from the real log (positions = line indices) -/
structure OpInfo where
  write : Bool := false
  handle : Nat := 0
  start : Option Nat := none
  acq : Option (Nat × Nat) := none      -- position, value
  rel : Option Nat := none              -- rrel / wcommit / wdrop position
  relVal : Option Nat := none
  commitVal : Option Nat := none
  done : Option (Nat × Bool) := none    -- wdone position, ok
  undeliv : Bool := false               -- the committed value cannot be deserialized by the owner's endpoint
  err : Bool := false
deriving Inhabited

structure Commit where
  k : Nat
  nv : Nat
  cpos : Nat
  dpos : Option Nat      -- position of `wdone ok`
deriving Inhabited

def natArg (w : List String) (i : Nat) : Nat := ((w[i]?).bind (·.toNat?)).getD 0

def kvArg (w : List String) (key : String) : Nat :=
  match w.find? (·.startsWith (key ++ "=")) with
  | some t => ((t.drop (key.length + 1)).toString.toNat?).getD 0
  | none => 0

-- ------------------------------------------------------------------------------------------
-- model plumbing

/-- replace the closure chains of the function-valued fields by array look-ups -/
def compact (s : State) (neps : Nat) : State :=
  let ks := List.range s.nk
  let rop := (ks.map s.rop).toArray
  let wop := (ks.map s.wop).toArray
  let mon := (ks.map s.mon).toArray
  let vgen := (ks.map s.vgen).toArray
  let inv := (ks.map s.invSeen).toArray
  let cache := ((List.range s.nc).map s.cache).toArray
  let lost := ((List.range neps).map s.lostEp).toArray
  { s with
    rop := fun k => rop.getD k .idle
    wop := fun k => wop.getD k .idle
    mon := fun k => mon.getD k .none
    vgen := fun k => vgen.getD k none
    invSeen := fun k => inv.getD k false
    cache := fun c => cache.getD c none
    lostEp := fun e => lost.getD e false }

/-- a task waiting in the FIFO queue of a cache's tokio `RwLock` -/
inductive Waiter where
  | rd (k : Nat)    -- `cache.read().await` of fetch k
  | wr (k : Nat)    -- `cache.write().await` of fetch k
  | mon (k : Nat)   -- `cache_lock.write().await` of the monitor spawned by fetch k
deriving BEq, Repr

/-- model state plus the arrival order of the waiters of every cache lock.  M_rwlock leaves the
acquisition order open; tokio's `RwLock` is FIFO (a new reader queues behind a waiting writer),
and the replay follows that order. -/
structure RS where
  s : State
  wq : NMap (List Waiter) := []
  /-- a connection was cut: error items of the dead forwarders travel through the owner's request
  channels, so the biased select may find the write channel momentarily empty -/
  lenient : Bool := false
  /-- close commands issued while the guard was not there yet (executed on acquisition) -/
  closes : List (Nat × Label) := []

instance : Inhabited RS := ⟨{ s := init { variant := .fixed, nk := 0, nc := 0, cep := fun _ => 0, val0 := 0 } }⟩

def RS.enq (r : RS) (c : Nat) (w : Waiter) : RS := { r with wq := r.wq.set c (((r.wq.get? c).getD []) ++ [w]) }

def firstStep (s : State) (ls : List Label) : Option (Label × State) :=
  ls.findSome? fun l => (step s l).map fun s' => (l, s')

/-- Alternatives for one internal step under the scheduling policy of the replay (empty =
quiescent): invalidation delivery and monitor wake-ups first, then message receipts and sends,
then the owner (write branch before read branch: `select! biased`), then the heads of the
cache-lock queues.  Two things the model leaves open and the code decides by plumbing that is not
part of the contract are explored as alternatives, to be resolved by the next observation:
which queued writer the owner takes next (capacity-1 request channel, one forwarding task per
remote lock), and — after a connection was cut — whether a read request is served before a
queued write request. -/
def policyCore (neps : Nat) (r : RS) (deferDeliver : Bool) : List RS :=
  let s := r.s
  let ks := List.range s.nk
  match (if deferDeliver then none else firstStep s (ks.map .mDeliver)) with
  | some (_, s') => [{ r with s := compact s' neps }]
  | none =>
  match firstStep s (ks.map .mWake) with
  | some (.mWake k, s') =>
    let c := match s'.mon k with | .wantW c => c | _ => 0
    [{ r with s := compact s' neps }.enq c (.mon k)]
  | some (_, s') => [{ r with s := compact s' neps }]
  | none =>
  match firstStep s (ks.flatMap (fun k => [.rRecv k, .wRecv k, .wConfirm k, .rSend k, .wSend k]) ++
      [.oStore, .oAbort, .oAllDropped]) with
  | some (_, s') => [{ r with s := compact s' neps }]
  | none =>
  let writes : List RS := s.wq.eraseDups.filterMap fun k =>
    (step { s with wq := k :: s.wq.erase k } .oWrite).map fun s' => { r with s := compact s' neps }
  let reads : List RS := match step s .oRead with
    | some s' => [{ r with s := compact s' neps }]
    | none => []
  if !writes.isEmpty then (if r.lenient then writes ++ reads else writes)
  else if !reads.isEmpty then reads
  else
    -- heads of the lock queues
    match r.wq.findSome? (fun (c, q) =>
      match q with
      | [] => none
      | h :: rest =>
        let pop : RS := { r with wq := r.wq.set c rest }
        match h with
        | .rd k =>
          if s.rop k != .start c then some pop else
          (step s (.rCheck k)).map fun s' =>
            let r' : RS := { pop with s := compact s' neps }
            if s'.rop k == .wantW c then r'.enq c (.wr k) else r'
        | .wr k =>
          if s.rop k != .wantW c then some pop else
          (step s (.rLockW k)).map fun s' => { pop with s := compact s' neps }
        | .mon k =>
          if s.mon k != .wantW c then some pop else
          (step s (.mClear k)).map fun s' => { pop with s := compact s' neps }) with
    | some r' => [r']
    | none =>
      -- quiescent: execute a queued close command whose guard has arrived
      match r.closes.findSome? (fun (k, l) => (step s l).map fun s' => (k, s')) with
      | some (k, s') => [{ r with s := compact s' neps, closes := r.closes.filter (·.1 != k) }]
      | none => []

/-- After a cut the owner may serve reads between writes; the reply then races with the next
invalidation on its way to the same endpoint: also explore "the invalidation arrives later". -/
def policyStep (neps : Nat) (r : RS) : List RS :=
  let a := policyCore neps r false
  if r.lenient && (firstStep r.s ((List.range r.s.nk).map .mDeliver)).isSome then
    a ++ policyCore neps r true
  else a

/-- all quiescent states reachable under the policy (at most `cap`) -/
def settleAll (neps cap : Nat) : Nat → List RS → List RS → List RS
  | 0, _, done => done
  | _, [], done => done
  | fuel + 1, r :: todo, done =>
    if done.length ≥ cap then done else
    match policyStep neps r with
    | [] => settleAll neps cap fuel todo (done ++ [r])
    | alts => settleAll neps cap fuel (alts ++ todo) done

def settleModel (neps : Nat) (r : RS) : RS :=
  ((settleAll neps 1 100000 [r] []).head?).getD r

def modelStatus (s : State) (k : Nat) : String :=
  match s.wop k with
  | .idle =>
    match s.rop k with
    | .idle => "new"
    | .held .. => "held"
    | .done => "done"
    | .lost => "lost"
    | _ => "pend"
  | .start _ | .queued _ | .granted .. => "pend"
  | .held .. => "held"
  | .commitSent .. | .stored .. => "committing"
  | .done _ => "done"
  | .dropped => "dropped"
  | .lost => "lost"

def modelHeldVal (s : State) (k : Nat) : Option Nat :=
  match s.rop k, s.wop k with
  | .held _ v, _ => some v
  | _, .held _ v => some v
  | _, _ => none

def parseLabel (t : String) : Option Label :=
  let w := words t
  let a := natArg w 1
  let b := natArg w 2
  match w.head? with
  | some "rStart" => some (.rStart a b)
  | some "rRelease" => some (.rRelease a)
  | some "wStart" => some (.wStart a b)
  | some "wCommit" => some (.wCommit a b)
  | some "wDrop" => some (.wDrop a)
  | some "lose" => some (.lose a)
  | some "rCheck" => some (.rCheck a)
  | some "rLockW" => some (.rLockW a)
  | some "rSend" => some (.rSend a)
  | some "rRecv" => some (.rRecv a)
  | some "mDeliver" => some (.mDeliver a)
  | some "mWake" => some (.mWake a)
  | some "mClear" => some (.mClear a)
  | some "wSend" => some (.wSend a)
  | some "wRecv" => some (.wRecv a)
  | some "wConfirm" => some (.wConfirm a)
  | some "oRead" => some .oRead
  | some "oWrite" => some .oWrite
  | some "oAllDropped" => some .oAllDropped
  | some "oStore" => some .oStore
  | some "oAbort" => some .oAbort
  | _ => none

/-- close every guard the way the harness does at `end` (even ids commit, odd ids drop), settle,
repeat until nothing changes -/
def closeAll (neps : Nat) : Nat → RS → RS
  | 0, r => r
  | fuel + 1, r =>
    let r := settleModel neps r
    let s := r.s
    let closing : List Label := (List.range s.nk).filterMap fun k =>
      match s.rop k, s.wop k with
      | .held .., _ => some (.rRelease k)
      | _, .held .. => some (if k % 2 == 0 then .wCommit k (1000 + k) else .wDrop k)
      | _, _ => none
    match closing.findSome? (fun l => step s l) with
    | some s' => closeAll neps fuel { r with s := compact s' neps }
    | none => r

def anyPending (s : State) : Bool :=
  (List.range s.nk).any fun k => (s.rop k).pending || (s.wop k).pending

-- ------------------------------------------------------------------------------------------
-- one trace

structure Res where
  diffs : List String := []
  fails : List (String × String) := []   -- predicate, text

def Res.diff (r : Res) (t : String) : Res := { r with diffs := r.diffs ++ [t] }
def Res.fail (r : Res) (p t : String) : Res := { r with fails := r.fails ++ [(p, t)] }

def showOpt (o : Option Nat) : String := match o with | some v => toString v | none => "-"

/-- values that were the latest committed value at some instant in `[a, b]` -/
def possible (commits : List Commit) (v a b : Nat) : Bool :=
  let supersededBefore (c : Nat) : Bool :=
    commits.any fun j => j.cpos > c && (match j.dpos with | some d => d < a | none => false)
  if v == 0 then !(commits.any fun j => match j.dpos with | some d => d < a | none => false)
  else commits.any fun j => j.nv == v && j.cpos < b && !supersededBefore j.cpos

def processTrace (variant : Variant) (name : String) (lines : Array String) : IO Unit := do
  let ws : Array (List String) := lines.map words
  -- ---------------------------------------------------------------- pass 1: tables
  let mut exact := false
  let mut handles : NMap (Nat × Nat) := []      -- handle ↦ (cache, ep)
  let mut ops : NMap OpInfo := []
  let mut maxK := 0
  let mut maxC := 0
  let mut maxE := 0
  let mut crashed := false
  let mut modelLine : Option String := none
  let upd (m : NMap OpInfo) (k : Nat) (f : OpInfo → OpInfo) : NMap OpInfo := m.set k (f ((m.get? k).getD {}))
  for i in [0:ws.size] do
    let w := ws[i]!
    match w with
    | "mode" :: m :: _ => exact := m == "exact"
    | "model" :: _ => modelLine := some ((lines[i]!.trimAscii.toString.drop 6).toString)
    | "handle" :: h :: _ =>
      let c := kvArg w "cache"; let e := kvArg w "ep"
      handles := handles.set (h.toNat?.getD 0) (c, e)
      maxC := max maxC c; maxE := max maxE e
    | "s" :: "read" :: _ => ops := upd ops (natArg w 2) (fun o => { o with write := false, handle := natArg w 3 }); maxK := max maxK (natArg w 2)
    | "s" :: "write" :: _ => ops := upd ops (natArg w 2) (fun o => { o with write := true, handle := natArg w 3 }); maxK := max maxK (natArg w 2)
    | "e" :: "rstart" :: _ | "e" :: "wstart" :: _ => ops := upd ops (natArg w 2) (fun o => { o with start := some i })
    | "e" :: "racq" :: _ | "e" :: "wacq" :: _ => ops := upd ops (natArg w 2) (fun o => { o with acq := some (i, natArg w 3) })
    | "e" :: "rrel" :: _ => ops := upd ops (natArg w 2) (fun o => { o with rel := some i, relVal := some (natArg w 3) })
    | "e" :: "wcommit" :: _ => ops := upd ops (natArg w 2) (fun o => { o with rel := some i, commitVal := some (natArg w 3) })
    | "e" :: "wdrop" :: _ => ops := upd ops (natArg w 2) (fun o => { o with rel := some i })
    | "e" :: "wdone" :: _ => ops := upd ops (natArg w 2) (fun o => { o with done := some (i, w[3]? == some "ok") })
    | "e" :: "rerr" :: _ | "e" :: "werr" :: _ => ops := upd ops (natArg w 2) (fun o => { o with err := true })
    | "undeliverable" :: _ => ops := upd ops (natArg w 1) (fun o => { o with undeliv := true })
    | "crash" :: _ | "panic" :: _ => crashed := true
    | _ => pure ()
  let neps := maxE + 2
  let epOfOp (k : Nat) : Nat := ((handles.get? ((ops.get? k).getD {}).handle).getD (0, 0)).2
  let cacheOfOp (k : Nat) : Nat := ((handles.get? ((ops.get? k).getD {}).handle).getD (0, 0)).1
  let mut res : Res := {}
  if crashed then res := res.fail "crash" "the harness or the code under test panicked"
  -- commits in log order
  let commits : List Commit := ((ops.filterMap fun (k, o) =>
      match o.commitVal, o.rel with
      | some nv, some c => some { k := k, nv := nv, cpos := c, dpos := match o.done with | some (d, true) => some d | _ => none : Commit }
      | _, _ => none).toArray.qsort (fun a b => a.cpos < b.cpos)).toList
  -- ---------------------------------------------------------------- pass 2: predicates on the real log + replay
  let mut heldR : List Nat := []
  let mut heldW : List Nat := []
  let mut dead : List Nat := []
  let mut lastWacq : Option Nat := none          -- position of the last write acquisition
  let mut warmAt : NMap Nat := []                -- cache ↦ position of the last read acquisition on it
  let mut hangs : List (Nat × String × String) := []
  let cepFun : Nat → Nat := fun c => ((handles.find? (fun (_, (c', _)) => c' == c)).map (·.2.2)).getD 0
  let mut model : List RS :=
    if exact then [{ s := compact (init { variant := variant, nk := maxK + 1, nc := maxC + 1, cep := cepFun, val0 := 0 }) neps }] else []
  let mut replayed := 0
  let mut replayLost := false
  for i in [0:ws.size] do
    let w := ws[i]!
    -- ------------------------------------------------ real-log predicates
    match w with
    | "s" :: "kill" :: _ =>
      let e := natArg w 2
      dead := e :: dead
      heldR := heldR.filter (fun k => epOfOp k != e)
      heldW := heldW.filter (fun k => epOfOp k != e)
    | "e" :: "racq" :: _ =>
      let k := natArg w 2; let v := natArg w 3
      if !dead.contains (epOfOp k) then
        if !heldW.isEmpty then
          res := res.fail "excl" s!"line={i} read guard {k} acquired while write guard {heldW} is held"
        heldR := k :: heldR
        warmAt := warmAt.set (cacheOfOp k) i
        if v == 999999 then
          res := res.fail "drop" s!"line={i} read {k} observed the value scribbled into a dropped write guard"
        else
          let a := ((ops.get? k).getD {}).start.getD i
          if !possible commits v a i then
            res := res.fail "fresh" s!"line={i} read {k} (started at line {a}) observed {v}, which was not the latest committed value at any instant of the read"
    | "e" :: "rrel" :: _ =>
      let k := natArg w 2
      if heldR.contains k then
        match ((ops.get? k).getD {}).acq with
        | some (_, v) =>
          if v != natArg w 3 then
            res := res.fail "excl" s!"line={i} value of read guard {k} changed from {v} to {natArg w 3} while held"
        | none => pure ()
      heldR := heldR.filter (· != k)
    | "e" :: "wacq" :: _ =>
      let k := natArg w 2; let v := natArg w 3
      if !dead.contains (epOfOp k) then
        if !heldW.isEmpty then
          res := res.fail "excl" s!"line={i} write guard {k} acquired while write guard {heldW} is held"
        if !heldR.isEmpty then
          res := res.fail "excl" s!"line={i} write guard {k} acquired while read guards {heldR} are held"
        heldW := k :: heldW
        lastWacq := some i
        if v == 999999 then
          res := res.fail "drop" s!"line={i} writer {k} observed the value scribbled into a dropped write guard"
        else
          let a := ((ops.get? k).getD {}).start.getD i
          if !possible commits v a i then
            res := res.fail "fresh" s!"line={i} writer {k} (started at line {a}) was given {v}, which was not the latest committed value at any instant of the request"
    | "e" :: "wcommit" :: _ | "e" :: "wdrop" :: _ => heldW := heldW.filter (· != natArg w 2)
    | "e" :: "rerr" :: _ | "e" :: "werr" :: _ =>
      if !dead.contains (epOfOp (natArg w 2)) then
        res := res.fail "err" s!"line={i} request {natArg w 2} failed although the owner is alive and its connection is up"
    | "e" :: "wdone" :: _ =>
      if w[3]? != some "ok" && !dead.contains (epOfOp (natArg w 2)) && !((ops.get? (natArg w 2)).getD {}).undeliv then
        res := res.fail "err" s!"line={i} commit of {natArg w 2} failed although the owner is alive and its connection is up"
    | "hang" :: _ => hangs := hangs ++ [(natArg w 1, w[2]?.getD "?", w[3]?.getD "?")]
    | _ => pure ()
    -- ------------------------------------------------ replay on the model (exact mode)
    if !model.isEmpty then
      let isDeadOp (k : Nat) : Bool := dead.contains (epOfOp k)
      let k := natArg w 2
      -- environment label of a stimulus; a close command whose guard is not there yet is queued
      let env (l : Label) (closing : Bool) : List RS × Option String :=
        let outs := model.map fun r =>
          match step r.s l with
          | some s' => some { r with s := compact s' neps }
          | none => if closing && modelStatus r.s k == "pend" then some { r with closes := r.closes ++ [(k, l)] } else none
        let ok := outs.filterMap id
        if ok.isEmpty then
          ([], some s!"line={i} stimulus `{" ".intercalate (w.drop 1)}` is not enabled in the model (model state of the operation: {modelStatus (model.head!).s k})")
        else (ok, none)
      let mut out : (List RS × Option String) := (model, none)
      match w with
      | "s" :: "read" :: _ =>
        let c := ((handles.get? (natArg w 3)).getD (0, 0)).1
        out := env (.rStart k c) false
        out := (out.1.map (fun r' => r'.enq c (.rd k)), out.2)
      | "s" :: "write" :: _ => out := env (.wStart k ((handles.get? (natArg w 3)).getD (0, 0)).2) false
      | "s" :: "rel" :: _ => if !isDeadOp k then out := env (.rRelease k) true
      | "s" :: "commit" :: _ =>
        if !isDeadOp k then
          out := env (.wCommit k ((((ops.get? k).getD {}).commitVal).getD (100000 + k))) true
      | "s" :: "wdrop" :: _ => if !isDeadOp k then out := env (.wDrop k) true
      | "s" :: "kill" :: _ =>
        out := env (.lose k) false
        out := (out.1.map (fun r' => { r' with lenient := true }), out.2)
      | "s" :: "settle" :: _ =>
        let all := settleAll neps 64 200000 model []
        if all.length ≥ 64 then
          replayLost := true
          out := ([], none)
        else out := (all, none)
      | "s" :: "yield" :: _ => out := ([], some s!"line={i} yield in an exact-mode trace")
      | "q" :: _ =>
        let k := natArg w 1
        if !isDeadOp k then
          let real := w[2]?.getD "?"
          let real := if real == "err" then "lost" else real
          let rv := (((ops.get? k).getD {}).acq).map (·.2)
          replayed := replayed + 1
          let keep := model.filter fun r =>
            modelStatus r.s k == real && (real != "held" || rv == modelHeldVal r.s k)
          if keep.isEmpty then
            let r := model.head!
            let ms := modelStatus r.s k
            if ms != real then
              out := ([], some s!"line={i} operation {k} is `{real}` in the real run but `{ms}` in the model")
            else
              out := ([], some s!"line={i} guard {k} holds {showOpt rv} in the real run but {showOpt (modelHeldVal r.s k)} in the model")
          else out := (keep, none)
      | _ => pure ()
      match out.2 with
      | some d => res := res.diff d
      | none => pure ()
      model := out.1
  -- ---------------------------------------------------------------- hang classification
  if !hangs.isEmpty then
    let staleReaders := hangs.filter fun (k, kind, _) =>
      kind == "read" && (match warmAt.get? (cacheOfOp k) with
        | some p => (match lastWacq with | some q => q < p | none => true)
        | none => false)
    -- write requests that were made and never granted: pending ones, and ones whose endpoint was
    -- cut after the request had left (the owner processes the request of a dead writer all the same)
    let ungranted := ops.filter fun (_, o) => o.write && o.start.isSome && o.acq.isNone
    let others := hangs.filter fun (_, kind, st) => kind == "write" && st != "pend"
    let shape :=
      if !staleReaders.isEmpty && !ungranted.isEmpty && others.isEmpty then
        "reader-holding-stale-cache+writer-waiting-for-drop"
      else
        let kinds := hangs.map fun (k, kind, st) =>
          let warm := if kind == "read" then (if (warmAt.get? (cacheOfOp k)).isSome then "-warm" else "-cold") else ""
          s!"{kind}-{st}{warm}"
        ",".intercalate (kinds.eraseDups.toArray.qsort (· < ·)).toList
    res := res.fail "hang" s!"shape={shape} pending after all guards were released and the system settled: {hangs.map (·.1)}"
  -- ---------------------------------------------------------------- corpus witness on the model
  match modelLine with
  | some ml =>
    let labels := (ml.splitOn ";").filterMap parseLabel
    let s0 := compact (init { variant := variant, nk := maxK + 1, nc := maxC + 1, cep := cepFun, val0 := 0 }) neps
    match run s0 labels with
    | none => res := res.diff s!"witness schedule is not a run of the model variant under test"
    | some s =>
      let s := (closeAll neps 100 { s := compact s neps }).s
      let dl := anyPending s
      IO.println s!"MODEL {name} labels={labels.length} deadlock={showBool dl}"
      if dl != !hangs.isEmpty then
        res := res.diff s!"witness: the model predicts {if dl then "a deadlock" else "completion"} but the real run {if hangs.isEmpty then "completed" else "hung"}"
  | none => pure ()
  -- ---------------------------------------------------------------- output
  for d in res.diffs do IO.println s!"DIFF {name} {d}"
  for (p, t) in res.fails do IO.println s!"FAIL {name} {p} {t}"
  let st (p : String) := if res.fails.any (·.1 == p) then "fail" else "ok"
  let rp := if (!exact && modelLine.isNone) || (replayLost && res.diffs.isEmpty) then "skipped" else if res.diffs.isEmpty then "ok" else "mismatch"
  IO.println s!"END {name} events={ws.size} replay={rp} compared={replayed} excl={st "excl"} fresh={st "fresh"} drop={st "drop"} hang={st "hang"} err={st "err"} crash={st "crash"}"

structure TraceAcc where
  name : Option String := none
  lines : Array String := #[]
  traces : Nat := 0

def main (args : List String) : IO Unit := do
  let variant := if args.head? == some "pinned" then Variant.pinned else Variant.fixed
  let stdin ← IO.getStdin
  let flush (a : TraceAcc) : IO Unit :=
    match a.name with
    | some n => processTrace variant n a.lines
    | none => pure ()
  lineLoop stdin ({} : TraceAcc) 1 (fun a _ line => do
    let t := line.trimAscii.toString
    if t.startsWith "trace " then
      flush a
      pure { name := some (t.drop 6).toString, lines := #[], traces := a.traces + 1 }
    else
      pure { a with lines := a.lines.push t }) (fun a => do
    flush a
    IO.println s!"DONE traces={a.traces} variant={if variant == .pinned then "pinned" else "fixed"}")
