import RemocModel.Table.Model
import Driver.WireText
/-
Driver for the hostile-peer correspondence (C08): the harness plays the remote endpoint of ONE
real chmux endpoint ("B") by injecting frames; local API actions happen at quiescent points.
The driver feeds the same frames to `Remoc.Table.handleRx` / `handleData`, infers the local
events from the messages the real endpoint sends and feeds them to `handleEvt`, and compares:

  DIFF  the real endpoint accepts/rejects a frame differently from the model, or sends a message
        the model cannot send in its state;
  FAIL  (property predicates on the real observations) a panic; receive-buffer usage above the
        advertised buffer; a port queue longer than the advertised buffer allows; an API call left
        pending after the dispatcher terminated; the dispatcher still running after a frame that
        exceeds credit, chunk size or request limits.

Output: `DIFF|FAIL <trace> line=<n> …` and `END <trace> events=<n> replay=<ok|mismatch> c08=<ok|FAIL>`.
-/
open Driver Remoc.Wire Remoc.Table

structure TSim where
  name : String := ""
  events : Nat := 0
  ep : Ep := { cfg := { maxPorts := 0, cq := 0, chunk := 0, buf := 0, remoteCq := 0 } }
  started : Bool := false
  /-- model verdict: the dispatcher must have terminated with this error -/
  verdict : Option (RunErr × Nat × String) := none
  realRun : Option String := none
  hdr : Option (Nat × Bool × Bool) := none
  expectTx : List Msg := []
  /-- port name ↦ local port -/
  names : List (String × Nat) := []
  replayOk : Bool := true
  c08 : Bool := true
  out : List String := []
  resourceViolation : Bool := false   -- model rejected a frame because it exceeds a resource limit
  goodbye : Bool := false
  txPayload : Bool := false   -- the next item sent by the real endpoint is the payload of a Data message
  maxRecvPorts : Nat := 128
  /-- ports received in the port batch currently open on a local port -/
  batch : List (Nat × Nat) := []
  /-- pending recv_any calls: call id ↦ port name -/
  recvPending : List (String × String) := []
  /-- ports whose open batch was already refused (further continuation frames are ignored) -/
  batchRefused : List Nat := []
  /-- the listener returned `None` (it took a `ClientDropped` marker out of ONE of its two queues,
  which one is decided by `tokio::select!`'s random branch order): from here on the model's count of
  queued markers is an upper bound only -/
  cdMaybeGone : Bool := false
  /-- a request that overflows a listener queue only if the marker is still in it: the real
  dispatcher may or may not have terminated with a protocol error -/
  mayProtocol : Bool := false

def TSim.diff (s : TSim) (line : Nat) (what : String) : TSim :=
  { s with replayOk := false, out := if s.out.length < 10 then s.out ++ [s!"DIFF {s.name} line={line} {what}"] else s.out }
def TSim.fail (s : TSim) (line : Nat) (what : String) : TSim :=
  { s with c08 := false, out := if s.out.length < 10 then s.out ++ [s!"FAIL {s.name} c08 line={line} {what}"] else s.out }

def kvGet (ws : List String) (key : String) : Option String :=
  (ws.find? (·.startsWith (key ++ "="))).map (fun w => (w.drop (key.length + 1)).toString)
def kvNat (ws : List String) (key : String) : Option Nat := (kvGet ws key).bind (·.toNat?)

def errText : RunErr → String
  | .reset => "reset"
  | .protocol => "protocol"

/-- local port whose remote port is `rp` and for which `pred` holds -/
def findByRemote (e : Ep) (rp : Nat) (pred : Connected → Bool) : Option Nat :=
  (e.ports.find? (fun (_, st) => match st with | .connected c => c.remote == rp && pred c | _ => false)).map (·.1)

/-- infer the local event behind a message sent by the real endpoint -/
def inferEvt (e : Ep) : Msg → Option Evt
  | .openPort p w id => some (.connectReq p w (id.getD p))
  | .portOpened cp sp => some (.accepted sp cp)
  | .rejected cp np => some (.rejected cp np)
  | .sendFinish rp => (findByRemote e rp (fun c => !c.senderDropped)).map .senderDropped
  | .receiveClose rp => (findByRemote e rp (fun c => !c.receiverClosed && !c.receiverDropped)).map .receiverClosed
  | .receiveFinish rp => (findByRemote e rp (fun c => !c.receiverDropped)).map .receiverDropped
  | .clientFinish => some .allClientsDropped
  | .listenerFinish => some .listenerDropped
  | .goodbye => some .sendGoodbye
  | _ => none

def TSim.onRx (s : TSim) (line : Nat) (bs : List UInt8) : TSim :=
  if !s.started then s else
  if s.verdict.isSome || s.ep.goodbyeReceived then s else   -- the model's dispatcher has stopped reading
  match s.hdr with
  | some (p, _, _) =>
    let s := { s with hdr := none }
    match handleData s.ep p bs.length with
    | .ok e => { s with ep := e }
    | .error err =>
      let resource := match lookup s.ep.ports p with
        | some (.connected c) => !c.remoteSendFinished
        | _ => false
      { s with verdict := some (err, line, s!"data of {bs.length} bytes for port {p}"), resourceViolation := resource }
  | none =>
    match decode bs with
    | .error _ => { s with verdict := some (.protocol, line, s!"undecodable frame {toHex bs}") }
    | .ok m =>
      match m with
      | .data p f l => { s with hdr := some (p, f, l) }
      | m =>
        match handleRx s.ep m with
        | .ok (e, emit) =>
          let s := match m with
            | .portData p first last _ ps _ =>
              let prev := if first then 0 else ((s.batch.find? (fun (q : Nat × Nat) => q.1 == p)).map (fun (q : Nat × Nat) => q.2)).getD 0
              let b := s.batch.filter (fun (q : Nat × Nat) => q.1 != p)
              let refused := if first then s.batchRefused.filter (· != p) else s.batchRefused
              if refused.contains p then { s with batch := b, batchRefused := refused }
              else { s with batch := (if last then b else b ++ [(p, prev + ps.length)]), batchRefused := refused }
            | .data p _ _ => { s with batch := s.batch.filter (fun (q : Nat × Nat) => q.1 != p) }
            | _ => s
          { s with ep := e, expectTx := s.expectTx ++ emit }
        | .error err =>
          -- see `cdMaybeGone`: retry without the marker; if that is accepted both outcomes are legal
          let retry := match m with
            | .openPort _ _ _ =>
              if s.cdMaybeGone && s.ep.clientDroppedQueued > 0 then
                match handleRx { s.ep with clientDroppedQueued := 0 } m with
                | .ok (e, emit) => some ({ e with clientDroppedQueued := s.ep.clientDroppedQueued }, emit)
                | .error _ => none
              else none
            | _ => none
          match retry with
          | some (e, emit) => { s with ep := e, expectTx := s.expectTx ++ emit, mayProtocol := true }
          | none =>
          let resource := match m with
            | .openPort _ _ _ => true
            | .clientFinish => true
            | .portData p _ _ _ _ _ => (match lookup s.ep.ports p with | some (.connected c) => !c.remoteSendFinished | _ => false)
            | _ => false
          { s with verdict := some (err, line, msgToText m), resourceViolation := resource }

def TSim.onTx (s : TSim) (line : Nat) (bs : List UInt8) : TSim :=
  if !s.started then s else
  if s.txPayload then { s with txPayload := false } else
  match decode bs with
  | .error _ => s.diff line s!"real endpoint emitted a frame the v3 spec decoder rejects: {toHex bs}"
  | .ok m =>
    match m with
    | .data _ _ _ => { s with txPayload := true }    -- data plane of the local sender: not part of this model
    | .portData _ _ _ _ _ _ => s
    | .portCredits _ _ => s
    | .ping => s
    | m =>
      match s.expectTx with
      | x :: rest => if x == m then { s with expectTx := rest } else
          s.diff line s!"expected automatic {msgToText x}, real sent {msgToText m}"
      | [] =>
        match inferEvt s.ep m with
        | none => s.diff line s!"real endpoint sent {msgToText m}; no local event of the model explains it"
        | some ev =>
          -- a request leaves the listener queue when the listener takes it
          let ep := match ev with
            | .accepted _ rp => { s.ep with listenQ := s.ep.listenQ.filter (·.1 != rp) }
            | .rejected rp _ => { s.ep with listenQ := s.ep.listenQ.filter (·.1 != rp) }
            | .connectReq p _ _ => { s.ep with allocated := s.ep.allocated ++ [p] }
            | _ => s.ep
          let ep := match ev with
            | .accepted lp _ => { ep with allocated := ep.allocated ++ [lp] }
            | _ => ep
          match handleEvt ep ev with
          | none => s.diff line s!"real endpoint sent {msgToText m}, which the model cannot send in its state"
          | some (e, some m') =>
            let s := { s with ep := e, goodbye := s.goodbye || m == .goodbye }
            if m' == m then s else s.diff line s!"model would send {msgToText m'}, real sent {msgToText m}"
          | some (e, none) => { s with ep := e }

def TSim.finish (s : TSim) : TSim :=
  if !s.started then s else
  match s.verdict, s.realRun with
  | some (err, line, what), none =>
    let s := s.diff line s!"model terminates with {errText err} on {what}, the real dispatcher keeps running"
    if s.resourceViolation then
      s.fail line s!"the dispatcher keeps operating after a frame that exceeds granted credit, chunk size or request limits ({what})"
    else s
  | some (err, line, what), some r =>
    if r.startsWith (errText err) then s
    else s.diff line s!"model terminates with {errText err} on {what}, real run result '{r}'"
  | none, some r =>
    if r.startsWith "protocol" && s.mayProtocol then s else
    if r.startsWith "protocol" || r.startsWith "reset" then s.diff s.events s!"real dispatcher terminated with '{r}', the model keeps operating"
    else s
  | none, none => s

def finishTrace (s : TSim) : IO Unit := do
  if s.name != "" then
    let s := s.finish
    for l in s.out do IO.println l
    let v := match s.verdict with
      | some (e, _, w) => s!"{errText e}:{(w.splitOn " ").headD "?"}"
      | none => if s.ep.goodbyeReceived then "goodbye" else "none"
    IO.println s!"END {s.name} events={s.events} replay={if s.replayOk then "ok" else "mismatch"} c08={if s.c08 then "ok" else "FAIL"} verdict={v}"

structure TAcc where
  sim : TSim := {}
  traces : Nat := 0

def stepLine (a : TAcc) (n : Nat) (line : String) : IO TAcc := do
  let ws := words line
  let s := { a.sim with events := a.sim.events + 1 }
  match ws with
  | ["trace", name] =>
    finishTrace a.sim
    return { sim := { name := name }, traces := a.traces + 1 }
  | "cfg" :: "B" :: rest =>
    let c0 := s.ep.cfg
    let cfg : EpCfg := { c0 with maxPorts := (kvNat rest "ports").getD 0, cq := (kvNat rest "cq").getD 0,
                                 chunk := (kvNat rest "chunk").getD 0, buf := (kvNat rest "buf").getD 0 }
    let ep0 := s.ep
    return { a with sim := { s with ep := { ep0 with cfg := cfg }, maxRecvPorts := (kvNat rest "maxports").getD 128 } }
  | ["injected", _, "hello", v, _, _, b, q] =>
    if s.started then return { a with sim := s } else
    let c0 := s.ep.cfg
    let cfg : EpCfg := { c0 with remoteVersion := v.toNat?.getD 3, remoteBuf := b.toNat?.getD 0, remoteCq := q.toNat?.getD 0 }
    let ep0 := s.ep
    return { a with sim := { s with ep := { ep0 with cfg := cfg } } }
  | ["new", "B", "ok"] => return { a with sim := { s with started := true, hdr := none } }
  | ["rx", "B", hx] =>
    match parseHex hx with
    | some bs => return { a with sim := s.onRx n bs }
    | none => return { a with sim := s }
  | ["tx", "B", hx] =>
    match parseHex hx with
    | some bs => return { a with sim := s.onTx n bs }
    | none => return { a with sim := s }
  | "run" :: "B" :: res =>
    return { a with sim := { s with realRun := some (" ".intercalate res) } }
  | "port" :: name :: "B" :: rest =>
    return { a with sim := { s with names := s.names ++ [(name, (kvNat rest "local").getD 0)] } }
  | "ret" :: _ :: "req" :: rest =>
    -- the listener handed a request to the application: its queue slot is free again
    match kvNat rest "remote" with
    | some rp =>
      let ep0 := s.ep
      return { a with sim := { s with ep := { ep0 with listenQ := ep0.listenQ.filter (·.1 != rp) } } }
    | none => return { a with sim := s }
  | ["ret", k, "err", "maxports", _] =>
    -- the batch was refused: the receiver dropped what it had accumulated
    match (s.recvPending.find? (·.1 == k)).bind (fun (_, name) => (s.names.find? (·.1 == name)).map (·.2)) with
    | some lp => return { a with sim := { s with batch := s.batch.filter (fun (q : Nat × Nat) => q.1 != lp), batchRefused := s.batchRefused ++ [lp] } }
    | none => return { a with sim := s }
  | "ret" :: _ :: "probe" :: rest =>
    -- `limit=none`: the dispatcher has ended and took the buffer accounting with it
    match kvNat rest "limit" with
    | none => return { a with sim := s }
    | some l =>
    let q := (kvNat rest "queue").getD 0
    let u := (kvNat rest "used").getD 0
    let s := if u > l then s.fail n s!"receive buffer usage {u} exceeds the advertised buffer {l}" else s
    let s := if q > l + 2 then s.fail n s!"{q} messages queued on a port whose advertised receive buffer is {l} bytes" else s
    return { a with sim := s }
  | "credits" :: name :: "B" :: rest =>
    match kvNat rest "used", kvNat rest "limit", (s.names.find? (·.1 == name)).map (·.2) with
    | some u, some l, some lp =>
      let s := if u > l then s.fail n s!"receive buffer usage {u} of port {name} exceeds the advertised buffer {l}" else s
      -- consumption by the local receiver pops whole messages off the port queue, oldest first:
      -- sync the model's queue with the real counter
      match lookup s.ep.ports lp with
      | some (.connected c) =>
        let rec pop (q : List Nat) (fuel : Nat) : List Nat :=
          match fuel, q with
          | 0, q => q
          | _, [] => []
          | f + 1, x :: rest => if (x :: rest).sum > u then pop rest f else x :: rest
        let q' := pop c.rxq (c.rxq.length + 1)
        let s := if q'.sum != u && s.verdict.isNone then
            s.diff n s!"port {name}: real used {u} is not the cost of a suffix of the model's queue {c.rxq}" else s
        let ep0 := s.ep
        return { a with sim := { s with ep := { ep0 with ports := setPort ep0.ports lp (.connected { c with rxq := q' }) } } }
      | _ => return { a with sim := s }
    | _, _, _ => return { a with sim := s }
  | ["op", "recvany", k, "B", name] => return { a with sim := { s with recvPending := s.recvPending ++ [(k, name)] } }
  | "settled" :: rest =>
    -- a receive call that is pending although the open port batch already exceeds the number of ports
    -- the receiver accepts per message: requests are accumulated without bound
    let pend := match kvGet rest "pending" with
      | some "-" => []
      | some t => t.splitOn ","
      | none => []
    let lineNo := n
    let s := s.recvPending.foldl (fun s (k, name) =>
      if !pend.contains k || s.realRun.isSome then s else
      match (s.names.find? (·.1 == name)).map (·.2) with
      | some lp =>
        let n := ((s.batch.find? (fun (q : Nat × Nat) => q.1 == lp)).map (fun (q : Nat × Nat) => q.2)).getD 0
        if n > s.maxRecvPorts then
          s.fail lineNo s!"receive call {k} on port {name} is still pending although the open port batch holds {n} requests and the receiver accepts at most {s.maxRecvPorts} per message (requests accumulate without bound)"
        else s
      | none => s) s
    match s.realRun, kvGet rest "pending" with
    | some _, some p =>
      if p != "-" then return { a with sim := s.fail n s!"API calls still pending after the dispatcher terminated: {p}" }
      else return { a with sim := s }
    | _, _ => return { a with sim := s }
  | ["ret", _, "none"] => return { a with sim := { s with cdMaybeGone := true } }
  | "panic" :: rest => return { a with sim := s.fail n ("panic: " ++ " ".intercalate rest) }
  | _ => return { a with sim := s }

def main : IO Unit := do
  let stdin ← IO.getStdin
  lineLoop stdin ({} : TAcc) 1 stepLine (fun a => do
    finishTrace a.sim
    IO.println s!"DONE traces={a.traces}")
