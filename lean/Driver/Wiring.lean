import RemocModel.Base.Wiring
import Driver.Util
/-
Driver for the wiring harness (`harness/src/bin/wiring.rs`): C05.

Per case: (1) the property predicate on the REAL results — every label sent into a half comes out at
exactly its counterpart (`got` = that label, preceded by the pre-queued item where there is one), nothing
else ever comes out (`drain`), no received half is unknown (`stray`), halves that cannot be connected make
both ends observe an error, nothing hangs; (2) the outcome classes (connected / error / absent per end)
are compared with what M_wiring's `connStep` yields for the scenario (`DIFF`).
Output: `FAIL <case> c05 …`, `DIFF <case> …`, one `END <case> …` per case.
-/
open Driver Remoc.Wiring

structure HalfRec where
  label : Nat
  kind : String
  travels : String
  prequeue : Bool
  prefail : String := "-"

structure Xfer where
  label : Nat
  txAt : String
  rxAt : String
  sent : String
  got : List Nat
  recv : String

structure CaseSt where
  name : String := ""
  active : Bool := false
  hops : Nat := 1
  scenario : String := "normal"
  halves : List HalfRec := []
  valueOk : Bool := true        -- every valuesend / valuerecv so far was ok
  failHop : Nat := 0
  sendFailed : Bool := false    -- a send of the value failed: the item was handed back, its halves stay where they were (and connected)
  xfers : List Xfer := []
  drains : List (Nat × List Nat × String) := []
  presends : List (String × Nat × String × Nat) := []   -- mode, halves, result, recovered
  events : List String := []
  skipped : Bool := false

structure DAcc where
  cur : CaseSt := {}
  cases : Nat := 0

def kvs (ws : List String) : List (String × String) :=
  ws.filterMap (fun w => match w.splitOn "=" with
    | [k, v] => some (k, v)
    | _ => none)

def getKV (m : List (String × String)) (k : String) : String := ((m.find? (·.1 == k)).map (·.2)).getD ""
def getNat (m : List (String × String)) (k : String) : Nat := (getKV m k).toNat?.getD 0

def parseList (s : String) : List Nat := if s == "-" || s == "" then [] else (s.splitOn ",").filterMap (·.toNat?)

def showL (l : List Nat) : String := if l.isEmpty then "-" else ",".intercalate (l.map toString)

def isErr (s : String) : Bool := s.startsWith "err:"

/-- what the model says about the two ends for a scenario -/
def modelOutcome (scenario : String) : ConnSt :=
  match scenario with
  | "normal" => connRun {} [.batchSent, .accept, .deliverResponse]
  | "rxports" => connRun {} [.batchSent, .rejectNoPorts, .deliverResponse]
  | "norecv" => connRun {} [.batchSent, .requestDropped, .deliverResponse]
  | "connfail" => connRun {} [.batchSent, .connLost]
  | "txports" => connRun {} [.sendFails]
  | _ => {}

def obsName : Obs → String
  | .nothingYet => "local" | .connected => "connected" | .error => "error" | .absent => "absent"

def finishCase (c : CaseSt) : IO Unit := do
  if !c.active then return
  if c.skipped then
    IO.println s!"END {c.name} skipped=1"
    return
  let mut fails : List String := []
  let mut diffs : List String := []
  -- a failed first send hands the item back with its halves: everything stays local and must work there
  let connectable := (c.scenario == "normal" && c.valueOk) || c.sendFailed
  let faulty := (c.scenario == "rxports" || c.scenario == "norecv" || c.scenario == "connfail") && !c.sendFailed
  for e in c.events do
    if e.startsWith "hang" || e.startsWith "panic" || e.endsWith "panicked" then fails := fails ++ [e]
    if e.startsWith "stray" then fails := fails ++ [s!"a received half carries an unknown label ({e})"]
  if c.scenario == "normal" && !c.valueOk && !c.halves.any (·.travels == "both") then
    let why := if c.halves.any (·.prefail != "-") then "RETRY the value with the other half of a channel whose first send failed could not be transferred: " else "the value could not be transferred although nothing was wrong: "
    fails := fails ++ [why ++ " ".intercalate (c.events.filter (·.startsWith "value"))]
  if c.scenario == "txports" && !c.sendFailed && c.halves.length > 0 then
    diffs := diffs ++ ["sender endpoint short of ports but the send did not fail"]
  -- retry with the other half: the preliminary send must fail after serialization and hand every half back
  -- (model: `endSend false` returns the interlock to "local"), after which the other half takes the branch the
  -- model gives for it
  for (mode, n, res, rec) in c.presends do
    let want := if mode == "ports" then "ser" else "oversize"
    if res != want then diffs := diffs ++ [s!"preliminary send ({mode}) ended with '{res}', expected '{want}'"]
    if rec != n then fails := fails ++ [s!"preliminary send ({mode}) failed but handed back {rec} of {n} halves"]
  let mut okLabels := 0
  let mut errLabels := 0
  let mut retried := 0
  for h in c.halves do
    match c.xfers.find? (·.label == h.label) with
    | none => if connectable then fails := fails ++ [s!"label {h.label}: no transfer recorded"]
    | some x =>
      let want : List Nat := if h.prequeue && h.kind == "mpsc" && h.travels == "rx" then [h.label + 100000, h.label] else [h.label]
      -- cross-wiring: whatever the scenario, only its own labels may ever come out of a channel
      for v in x.got do
        if !(want.contains v) then
          fails := fails ++ [s!"label {h.label} ({h.kind}, {h.travels} travels): value {v} of another channel came out of it (cross-wired)"]
      let retryBranch : Branch :=
        let il0 : Interlock := {}
        let isLr := h.kind == "lr"
        if h.travels == "tx" then (serializeSender true isLr ((serializeReceiver true isLr il0).2.endSend false)).1
        else (serializeReceiver true isLr ((serializeSender true isLr il0).2.endSend false)).1
      if h.prefail != "-" && c.scenario == "normal" && retryBranch == .localRemote && !c.sendFailed && c.valueOk then
        -- the half went out after a failed send of its counterpart: ordinary local-remote case expected
        retried := retried + 1
        if x.got == want && x.sent == "ok" then okLabels := okLabels + 1
        else
          fails := fails ++ [s!"RETRY label {h.label} ({h.kind}, {h.travels} travels after a failed send ({h.prefail}) of the other half had handed it back): the received half is not wired to the handed-back counterpart (sent={x.sent} got={showL x.got} recv={x.recv})"]
      else if (h.kind == "bin" || h.kind == "lr") && x.txAt == "origin" && x.rxAt == "origin" then
        -- both halves of a bin / lr channel at the same endpoint: such a channel never connects (by design)
        pure ()
      else if x.sent == "hang" || x.recv == "hang" then
        fails := fails ++ [s!"label {h.label} ({h.kind}, {h.travels} travels, scenario {c.scenario}): hang (sent={x.sent} recv={x.recv})"]
      else if h.travels == "both" then
        -- both halves of a bin / lr channel sent away: the documentation of bin promises forwarding
        if x.got == want then okLabels := okLabels + 1
        else if h.kind == "bin" then
          fails := fails ++ [s!"FB2 both halves of a bin channel were sent to the remote endpoint: the received halves are not connected to each other (sent={x.sent} got={showL x.got} recv={x.recv})"]
        else if x.txAt == "origin" || c.sendFailed then okLabels := okLabels + 1   -- lr: the interlock refused the second half
        else
          fails := fails ++ [s!"FB2 both halves of an lr channel could be sent away (interlock ineffective): sent={x.sent} got={showL x.got} recv={x.recv}"]
      else if connectable then
        if x.got == want && x.sent == "ok" then okLabels := okLabels + 1
        else
          fails := fails ++ [s!"label {h.label} ({h.kind}, {h.travels} travels, {c.hops} hops): not delivered to its counterpart (sent={x.sent} got={showL x.got} recv={x.recv})"]
      else if faulty then
        -- unconnectable: the end that stayed must see an error, nothing may be delivered
        errLabels := errLabels + 1
        if !x.got.isEmpty then fails := fails ++ [s!"label {h.label}: delivered although the half could not be connected"]
        let staySent := x.txAt == "origin"
        if staySent then
          if !(isErr x.sent) then fails := fails ++ [s!"label {h.label} ({h.kind} sender stayed, scenario {c.scenario}): the half could not be connected but sending reported {x.sent}"]
        else if x.rxAt == "origin" then
          if !(isErr x.recv) then
            if h.kind == "bin" && c.hops > 1 && x.recv == "eos" then
              fails := fails ++ [s!"FB3 label {h.label} (bin receiver stayed, sender forwarded over {c.hops} connections, scenario {c.scenario}): the forwarded half could not be connected but the receiver sees a clean end-of-stream, not an error"]
            else
              fails := fails ++ [s!"label {h.label} ({h.kind} receiver stayed, scenario {c.scenario}): the half could not be connected but receiving reported {x.recv}"]
      -- model outcome classes
      -- a send that fails at the origin hands the halves back (never sent); at a forwarding endpoint the halves
      -- it holds are the connected ones of the previous hops
      let m := if c.sendFailed then (if c.failHop == 0 then modelOutcome "txports" else modelOutcome "normal") else modelOutcome c.scenario
      if h.travels != "both" && (connectable || faulty) && !((h.kind == "bin" || h.kind == "lr") && x.txAt == "origin" && x.rxAt == "origin") then
        let stayObs := if x.txAt == "origin" && x.rxAt == "origin" then "local"
          else if x.txAt == "origin" then (if x.sent == "ok" then "connected" else if isErr x.sent then "error" else x.sent)
          else (if x.recv == "ok" then "connected" else if isErr x.recv then "error" else x.recv)
        let travelObs := if x.txAt == "origin" && x.rxAt == "origin" then "absent"
          else if x.txAt == "absent" || x.rxAt == "absent" then "absent" else "connected"
        let wantStay := obsName m.stay
        let wantTravel := obsName m.travel
        if c.scenario != "normal" || c.valueOk then
          if stayObs != wantStay && !(stayObs == "eos" && wantStay == "error") then
            diffs := diffs ++ [s!"label {h.label}: the end that stayed observes '{stayObs}', model: '{wantStay}'"]
          if travelObs != wantTravel && !(wantTravel == "error" && travelObs == "absent") then
            diffs := diffs ++ [s!"label {h.label}: the end that travelled is '{travelObs}', model: '{wantTravel}'"]
  for (l, extra, e) in c.drains do
    if !extra.isEmpty then fails := fails ++ [s!"label {l}: further values {showL extra} came out after the transfer (connected to something else as well)"]
    if e == "hang" then fails := fails ++ [s!"label {l}: receiver neither ends nor fails after its sender is gone (hang)"]
  for m in fails do IO.println s!"FAIL {c.name} c05 {m}"
  for m in diffs do IO.println s!"DIFF {c.name} {m}"
  IO.println s!"END {c.name} hops={c.hops} scenario={c.scenario} n={c.halves.length} c05={if fails.isEmpty then "ok" else "fail"} replay={if diffs.isEmpty then "ok" else "diff"} connected={okLabels} unconnectable={errLabels} retried={retried} valueok={if c.valueOk then 1 else 0}"

def stepLine (a : DAcc) (_n : Nat) (line : String) : IO DAcc := do
  let l := line.trimAscii.toString
  if l.isEmpty || l.startsWith "spec " || l.startsWith "#" then return a
  let ws := words l
  let c := a.cur
  match ws with
  | "case" :: name :: rest =>
    finishCase c
    let m := kvs rest
    return { cur := { name := name, active := true, hops := getNat m "hops", scenario := getKV m "scenario" }, cases := a.cases + 1 }
  | "half" :: lab :: rest =>
    let m := kvs rest
    let pf := getKV m "prefail"
    let h : HalfRec := { label := lab.toNat?.getD 0, kind := getKV m "kind", travels := getKV m "travels", prequeue := getKV m "prequeue" == "1",
                         prefail := if pf == "" then "-" else pf }
    return { a with cur := { c with halves := c.halves ++ [h] } }
  | "valuesend" :: rest =>
    let m := kvs rest
    let ok := getKV m "res" == "ok"
    let firstFailed : Bool := (!ok) && (getKV m "res" != "hang")
    return { a with cur := { c with valueOk := c.valueOk && ok, sendFailed := c.sendFailed || firstFailed,
                                     failHop := if firstFailed && !c.sendFailed then getNat m "hop" else c.failHop, events := c.events ++ [l] } }
  | "valuerecv" :: rest =>
    let m := kvs rest
    let ok := getKV m "res" == "ok"
    return { a with cur := { c with valueOk := c.valueOk && ok, events := c.events ++ [l] } }
  | "xfer" :: lab :: t :: r :: rest =>
    let m := kvs rest
    let x : Xfer := { label := lab.toNat?.getD 0, txAt := (t.splitOn "@").getLastD "", rxAt := (r.splitOn "@").getLastD "",
                      sent := getKV m "sent", got := parseList (getKV m "got"), recv := getKV m "recv" }
    return { a with cur := { c with xfers := c.xfers ++ [x] } }
  | "presend" :: rest =>
    let m := kvs rest
    return { a with cur := { c with presends := c.presends ++ [(getKV m "mode", getNat m "halves", getKV m "res", getNat m "recovered")] } }
  | "drain" :: lab :: rest =>
    let m := kvs rest
    return { a with cur := { c with drains := c.drains ++ [(lab.toNat?.getD 0, parseList (getKV m "extra"), getKV m "end")] } }
  | "skipped" :: _ => return { a with cur := { c with skipped := true } }
  | "end" :: _ =>
    finishCase c
    return { a with cur := {} }
  | _ => return { a with cur := { c with events := c.events ++ [l] } }

def main : IO Unit := do
  let stdin ← IO.getStdin
  lineLoop stdin ({} : DAcc) 1 stepLine (fun a => do
    finishCase a.cur
    IO.println s!"DONE cases={a.cases}")
