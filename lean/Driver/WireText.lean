import RemocModel.Wire.Model
import Driver.Util
/- Text form of wire messages shared by all drivers. -/
namespace Driver
open Remoc.Wire

def msgToText : Msg → String
  | .reset => "reset"
  | .hello v c => s!"hello {v} {c.timeoutMs} {c.chunk} {c.buf} {c.cq}"
  | .ping => "ping"
  | .openPort p w none => s!"openPort {p} {showBool w} -"
  | .openPort p w (some i) => s!"openPort {p} {showBool w} {i}"
  | .portOpened c s => s!"portOpened {c} {s}"
  | .rejected c n => s!"rejected {c} {showBool n}"
  | .data p f l => s!"data {p} {showBool f} {showBool l}"
  | .portData p f l w ps none =>
      s!"portData {p} {showBool f} {showBool l} {showBool w} {showNatList ps} none"
  | .portData p f l w ps (some is) =>
      s!"portData {p} {showBool f} {showBool l} {showBool w} {showNatList ps} {showNatList is}"
  | .portCredits p c => s!"portCredits {p} {c}"
  | .sendFinish p => s!"sendFinish {p}"
  | .receiveClose p => s!"receiveClose {p}"
  | .receiveFinish p => s!"receiveFinish {p}"
  | .clientFinish => "clientFinish"
  | .listenerFinish => "listenerFinish"
  | .goodbye => "goodbye"

def parseMsg (ws : List String) : Option Msg :=
  match ws with
  | ["reset"] => some .reset
  | ["ping"] => some .ping
  | ["clientFinish"] => some .clientFinish
  | ["listenerFinish"] => some .listenerFinish
  | ["goodbye"] => some .goodbye
  | ["hello", v, t, c, b, q] =>
    match v.toNat?, t.toNat?, c.toNat?, b.toNat?, q.toNat? with
    | some v, some t, some c, some b, some q => some (.hello v ⟨t, c, b, q⟩)
    | _, _, _, _, _ => none
  | ["openPort", p, w, i] =>
    match p.toNat?, parseBool w with
    | some p, some w =>
      if i == "-" then some (.openPort p w none) else (i.toNat?).map (fun i => .openPort p w (some i))
    | _, _ => none
  | ["portOpened", c, s] =>
    match c.toNat?, s.toNat? with
    | some c, some s => some (.portOpened c s)
    | _, _ => none
  | ["rejected", c, n] =>
    match c.toNat?, parseBool n with
    | some c, some n => some (.rejected c n)
    | _, _ => none
  | ["data", p, f, l] =>
    match p.toNat?, parseBool f, parseBool l with
    | some p, some f, some l => some (.data p f l)
    | _, _, _ => none
  | ["portData", p, f, l, w, ps, is] =>
    match p.toNat?, parseBool f, parseBool l, parseBool w, parseNatList ps with
    | some p, some f, some l, some w, some ps =>
      if is == "none" then some (.portData p f l w ps none)
      else (parseNatList is).map (fun is => .portData p f l w ps (some is))
    | _, _, _, _, _ => none
  | ["portCredits", p, c] =>
    match p.toNat?, c.toNat? with
    | some p, some c => some (.portCredits p c)
    | _, _ => none
  | ["sendFinish", p] => (p.toNat?).map .sendFinish
  | ["receiveClose", p] => (p.toNat?).map .receiveClose
  | ["receiveFinish", p] => (p.toNat?).map .receiveFinish
  | _ => none

def decodeToText (bs : Bytes) : String :=
  match decode bs with
  | .ok m => msgToText m
  | .error .eof => "ERR eof"
  | .error .invalid => "ERR invalid"

end Driver
