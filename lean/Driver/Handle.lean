import Driver.Util
import RemocModel.Handle.Model
import RemocModel.Handle.Lazy
/-
Driver for C20 (handles, lazy values, lazy blobs).  Input: the trace of `harness/src/bin/handle.rs`.

  case <name> handle <neps> <a-b,a-b,...>
  create <ep> <tag> <nonce> <provided> = <slot> <obj>
  clone <slot> = <slot>|err
  send <slot> <conn> <ep> <b|m> = ok <msg>|err
  recv <msg> = <slot> <created|received|remote> <uid> | none
  loseq <conn> <dst> = <count>
  access <into|ref|mut> <slot> <tag> = val <nonce> | unknown | mismatch | hang
  drop <slot> = ok       dropprov <obj> = ok      keepprov <obj> = ok      cut <conn> = ok
  drops <d0,d1,...>                            drop counters of all objects after the op settled
  case <name> lazy <neps> <conns> chunk=<n> buf=<n> dup=<n> dseed=<n>
  lprovide <v|b> <ep> <size> <provided> = <hex>
  lfwd <conn> <b|m> = ok|err
  lfetch <hop|-> <budget|-> = ok <hex> adv=<n|-> | err <kind> | hang
  ldropprov = ok
  panic
  end

Every op is replayed on the model (`DIFF` when the real result differs from the model's), the
property predicates are evaluated on the real results with bookkeeping that does not use the model
(`FAIL`), and a final `END` line summarises.
-/
open Driver Remoc

/-! ## bookkeeping that is independent of the model -/

structure SlotRec where
  ep : Nat
  obj : Nat
  live : Bool
  pristine : Bool     -- derived from the created handle by clones only (never travelled)
  attachedReal : Bool := true   -- real state is LocalCreated / LocalReceived (as printed by the real handle)
  regConn : Nat := 0            -- for a non-attached handle: connection and endpoint of the registration
  regEp : Nat := 0              --   its id was made by (the send of an attached handle it descends from)
  deriving Inhabited

structure ObjRec where
  ep : Nat
  tag : Nat
  nonce : Nat
  takenReal : Bool    -- an `into_inner` has returned a value or a type error for it
  provided : Bool
  provDropped : Bool
  flagged : Bool := false   -- the provider-drop finding was already reported for this object
  deriving Inhabited

structure MsgRec where
  obj : Nat
  conn : Nat
  dst : Nat
  flying : Bool
  regConn : Nat := 0
  regEp : Nat := 0
  deriving Inhabited

inductive Mode | idle | handle | lazy
  deriving DecidableEq

structure St where
  mode : Mode := .idle
  name : String := ""
  hs : Handle.State := Handle.init []
  slots : Array SlotRec := #[]
  objs : Array ObjRec := #[]
  msgs : Array MsgRec := #[]
  uids : List (Nat × Nat) := []      -- model id ↔ canonical uuid name
  ls : Lazy.LState := Lazy.provide false [] 1
  lcut : Bool := false                -- a connection of the lazy case was (possibly) cut
  interesting : Bool := false
  cases : Nat := 0
  lines : Nat := 0
  diffs : Nat := 0
  fails : Nat := 0
  nontrivial : Nat := 0
  caseBad : Bool := false

def St.diff (st : St) (n : Nat) (why line : String) : IO St := do
  IO.println s!"DIFF case={st.name} line={n} {why} :: {line}"
  return { st with diffs := st.diffs + 1, caseBad := true }

def St.fail (st : St) (n : Nat) (pred detail line : String) : IO St := do
  IO.println s!"FAIL case={st.name} line={n} {pred} {detail} :: {line}"
  return { st with fails := st.fails + 1, caseBad := true }

def parseConns (s : String) : Option (List (Nat × Nat)) :=
  if s == "-" then some [] else
  (s.splitOn ",").mapM (fun p =>
    match p.splitOn "-" with
    | [a, b] => do some (← a.toNat?, ← b.toNat?)
    | _ => none)

def kvNat (s key : String) : Option Nat :=
  match s.splitOn "=" with
  | [k, v] => if k == key then v.toNat? else none
  | _ => none

def resText : Handle.Res → String
  | .value v => s!"val {v}"
  | .unknown => "unknown"
  | .mismatch => "mismatch"

def kindOf : String → Option Handle.Kind
  | "into" => some .intoInner
  | "ref" => some .asRef
  | "mut" => some .asMut
  | _ => none

/-- decidable form of `Handle.valueGone` -/
def goneB (s : Handle.State) (o : Nat) : Bool :=
  (match s.objs[o]? with | some ob => ob.taken | none => false) || Handle.refs s o == 0

def modelDrops (s : Handle.State) : List Nat :=
  (List.range s.objs.length).map (fun o => if goneB s o then 1 else 0)

def hstText : Handle.HSt → String
  | .created _ => "created"
  | .received _ _ => "received"
  | .remote _ => "remote"

/-- the model step plus the settle of the real system -/
def stepSettle (s : Handle.State) (l : Handle.Label) : Option Handle.State :=
  (Handle.step s l).map Handle.settle

/-! ## handle cases -/

def handleOp (st : St) (n : Nat) (line : String) (lhs : List String) (rhs : List String) : IO St := do
  let s := st.hs
  match lhs, rhs with
  | ["create", ep, tag, nonce, prov], [slot, obj] =>
    match ep.toNat?, tag.toNat?, nonce.toNat?, slot.toNat?, obj.toNat? with
    | some ep, some tag, some nonce, some slot, some obj =>
      let s' := Handle.settle (Handle.create s ep tag nonce (prov == "1"))
      let st := { st with hs := s',
                          slots := st.slots.push { ep := ep, obj := obj, live := true, pristine := true },
                          objs := st.objs.push { ep := ep, tag := tag, nonce := nonce, takenReal := false, provided := prov == "1", provDropped := false } }
      if slot + 1 != s'.handles.length || obj + 1 != s'.objs.length then st.diff n "slot-numbering" line else return st
    | _, _, _, _, _ => st.diff n "unparsable" line
  | ["clone", h], [r] =>
    match h.toNat? with
    | some h =>
      match stepSettle s (.clone h), r.toNat? with
      | some s', some slot =>
        let rec0 := st.slots[h]!
        let st := { st with hs := s', slots := st.slots.push { rec0 with live := true } }
        if slot + 1 != s'.handles.length then st.diff n "slot-numbering" line else return st
      | none, none => return st
      | _, _ => st.diff n "clone-enabledness" line
    | none => st.diff n "unparsable" line
  | ["send", h, c, ep, _via], r =>
    match h.toNat?, c.toNat?, ep.toNat? with
    | some h, some c, some ep =>
      let epOk := match s.handles[h]? with | some hd => hd.ep == ep | none => true
      let st ← if epOk then pure st else st.diff n "endpoint-bookkeeping" line
      match stepSettle s (.send h c), r with
      | some s', ["ok", m] =>
        let srec := st.slots[h]!
        let dst := (Handle.otherEnd s.topo c ep).getD 0
        -- a created handle (or a clone of it) makes a new registration in the storage of (its endpoint, c);
        -- a handle that has travelled carries the id of the registration it descends from
        let (rc, re) := if srec.pristine then (c, srec.ep) else (srec.regConn, srec.regEp)
        let st := { st with hs := s', msgs := st.msgs.push { obj := srec.obj, conn := c, dst := dst, flying := true, regConn := rc, regEp := re } }
        if m.toNat? != some (s'.msgs.length - 1) then st.diff n "message-numbering" line else return st
      | none, ["err"] => return st
      | some _, ["err"] => st.diff n "send-failed-but-model-sends" line
      | none, _ => st.diff n "send-succeeded-but-model-refuses" line
      | _, _ => st.diff n "unparsable" line
    | _, _, _ => st.diff n "unparsable" line
  | ["recv", m], r =>
    match m.toNat? with
    | none => st.diff n "unparsable" line
    | some m =>
      let mrec := st.msgs[m]?.getD { obj := 0, conn := 0, dst := 0, flying := false }
      let msgs := if m < st.msgs.size then st.msgs.set! m { mrec with flying := false } else st.msgs
      match stepSettle s (.deliver m), r with
      | some s', [slot, kind, uid] =>
        let st := { st with hs := s', msgs := msgs,
                            slots := st.slots.push { ep := mrec.dst, obj := mrec.obj, live := true, pristine := false,
                                                     attachedReal := kind != "remote", regConn := mrec.regConn, regEp := mrec.regEp } }
        let hd := s'.handles.getLast?.getD ⟨0, .remote 0, false, [], 0⟩
        let st ← if slot.toNat? != some (s'.handles.length - 1) then st.diff n "slot-numbering" line else pure st
        let st := if kind == "received" then { st with interesting := true } else st
        -- predicate on the real result: re-attachment only on the creating endpoint
        let orec := st.objs[mrec.obj]?.getD default
        let st ← if kind == "received" && orec.ep != mrec.dst then
            st.fail n "confinement" "handle-reattached-on-foreign-endpoint" line else pure st
        let st ← if kind == "created" then st.fail n "confinement" "received-handle-is-LocalCreated" line else pure st
        let st ← if kind == "received" && (mrec.conn != mrec.regConn || mrec.dst != mrec.regEp) then
            st.fail n "confinement" "handle-reattached-through-another-connections-storage" line else pure st
        let st ← if kind != hstText hd.st then st.diff n s!"handle-state model={hstText hd.st}" line else pure st
        -- uuid ↔ model id: a bijection
        match hd.st.id?, uid.toNat? with
        | some id, some u =>
          match st.uids.find? (fun p => p.1 == id), st.uids.find? (fun p => p.2 == u) with
          | none, none => return { st with uids := (id, u) :: st.uids }
          | some p, some q => if p == (id, u) && q == (id, u) then return st else st.diff n s!"id-mapping model-id={id}" line
          | _, _ => st.diff n s!"id-mapping model-id={id}" line
        | _, _ => return st
      | none, ["none"] => return { st with msgs := msgs }
      | some s', ["none"] =>
        let st := { st with hs := s', msgs := msgs,
                            slots := st.slots.push { ep := mrec.dst, obj := mrec.obj, live := false, pristine := false } }
        st.diff n "message-not-received-but-model-delivers" line
      | none, _ => ({ st with msgs := msgs }).diff n "message-received-but-model-has-none" line
      | _, _ => st.diff n "unparsable" line
  | ["loseq", c, dst], [cnt] =>
    match c.toNat?, dst.toNat? with
    | some c, some dst =>
      let idxs := (List.range s.msgs.length).filter (fun i =>
        match s.msgs[i]? with | some m => m.conn == c && m.dst == dst && m.st == .flying | none => false)
      let s' := Handle.settle (Handle.run s (idxs.map Handle.Label.lose))
      let msgs := idxs.foldl (fun (a : Array MsgRec) i => if i < a.size then a.set! i { a[i]! with flying := false } else a) st.msgs
      let st := { st with hs := s', msgs := msgs, interesting := st.interesting || !idxs.isEmpty }
      if cnt.toNat? != some idxs.length then st.diff n s!"queued-messages model={idxs.length}" line else return st
    | _, _ => st.diff n "unparsable" line
  | ["access", kind, h, tag], r =>
    match kindOf kind, h.toNat?, tag.toNat? with
    | some k, some h, some tag =>
      let srec := st.slots[h]?.getD { ep := 0, obj := 0, live := false, pristine := false }
      let orec := st.objs[srec.obj]?.getD default
      -- predicates on the real result first
      let st := if srec.ep != orec.ep || tag != orec.tag || orec.takenReal then { st with interesting := true } else st
      let st ← match r with
        | "val" :: v :: rest => do
          let st ← if v.toNat? != some orec.nonce then st.fail n "no_foreign_value" "value-of-another-object" line else pure st
          let st ← if srec.ep != orec.ep then st.fail n "confinement" "value-on-non-creating-endpoint" line else pure st
          let st ← if tag != orec.tag then st.fail n "confinement" "value-at-wrong-type" line else pure st
          let st ← if orec.takenReal then st.fail n "confinement" "value-after-it-was-taken" line else pure st
          let st ← if !rest.isEmpty then st.fail n "released" s!"value-{rest.head!}" line else pure st
          pure st
        | ["hang"] => st.fail n "confinement" "access-never-returns" line
        | _ => pure st
      -- bookkeeping: an into_inner that got hold of the cell empties it
      let tookIt := k == .intoInner && (r.head? == some "val" || r == ["mismatch"])
      let st := if tookIt && srec.obj < st.objs.size then { st with objs := st.objs.set! srec.obj { orec with takenReal := true } } else st
      let st := if k == .intoInner && h < st.slots.size then { st with slots := st.slots.set! h { srec with live := false } } else st
      match Handle.access s k h tag with
      | some (res, s') =>
        let st := { st with hs := Handle.settle s' }
        let real := " ".intercalate (r.take 2)
        if real != resText res then st.diff n s!"access-result model={resText res}" line else return st
      | none => if r == ["err"] then return st else st.diff n "access-on-dead-handle" line
    | _, _, _ => st.diff n "unparsable" line
  | ["drop", h], r =>
    match h.toNat? with
    | some h =>
      let st := if h < st.slots.size then { st with slots := st.slots.set! h { st.slots[h]! with live := false } } else st
      match stepSettle s (.dropHandle h), r with
      | some s', ["ok"] => return { st with hs := s' }
      | none, ["err"] => return st
      | _, _ => st.diff n "drop-enabledness" line
    | none => st.diff n "unparsable" line
  | ["dropprov", o], r =>
    match o.toNat? with
    | some o =>
      let st := if o < st.objs.size && r == ["ok"] then { st with objs := st.objs.set! o { st.objs[o]! with provDropped := true }, interesting := true } else st
      match stepSettle s (.dropProvider o), r with
      | some s', ["ok"] => return { st with hs := s' }
      | none, ["err"] => return st
      | _, _ => st.diff n "provider-state" line
    | none => st.diff n "unparsable" line
  | ["keepprov", o], r =>
    match o.toNat? with
    | some o =>
      match stepSettle s (.keepProvider o), r with
      | some s', ["ok"] => return { st with hs := s' }
      | none, ["err"] => return st
      | _, _ => st.diff n "provider-state" line
    | none => st.diff n "unparsable" line
  | ["cut", c], r =>
    match c.toNat? with
    | some c =>
      let msgs := st.msgs.map (fun m => if m.conn == c then { m with flying := false } else m)
      match stepSettle s (.cut c), r with
      | some s', ["ok"] => return { st with hs := s', msgs := msgs, interesting := true }
      | none, ["err"] => return st
      | _, _ => st.diff n "cut-enabledness" line
    | none => st.diff n "unparsable" line
  | _, _ => st.diff n "unknown-op" line

/-- `drops d0,d1,…`: compare with the model and evaluate the release predicates on the real counters -/
def handleDrops (st : St) (n : Nat) (line : String) (arg : String) : IO St := do
  match parseNatList arg with
  | none => st.diff n "unparsable" line
  | some ds =>
    let mut st := st
    let expect := modelDrops st.hs
    if ds != expect then
      st ← st.diff n s!"drop-counters model={showNatList expect}" line
    for o in List.range ds.length do
      let d := ds[o]!
      let orec := st.objs[o]?.getD default
      let liveAny := st.slots.any (fun r => r.live && r.obj == o)
      let liveHome := st.slots.any (fun r => r.live && r.obj == o && r.ep == orec.ep)
      let livePristine := st.slots.any (fun r => r.live && r.obj == o && r.pristine)
      let flying := st.msgs.any (fun m => m.flying && m.obj == o)
      if d > 1 then
        st ← st.fail n "released" s!"object-{o}-dropped-twice" line
      if d == 0 && !liveAny && !flying then
        st ← st.fail n "released" "value-not-dropped-after-every-handle-is-gone" line
      if d == 0 && orec.provDropped && !liveHome then
        st ← st.fail n "released" "value-not-dropped-after-provider-drop" line
      -- finding F-C20-1 (property as worded: released once the provider is dropped): a handle that is
      -- attached on the creating endpoint keeps the value alive and usable after the provider drop
      if d == 0 && orec.provDropped && liveHome && !orec.takenReal && !orec.flagged then
        st ← st.fail n "released" "value-kept-alive-by-local-handle-after-provider-drop" line
        st := { st with objs := st.objs.set! o { orec with flagged := true } }
      if d ≥ 1 && livePristine && !orec.takenReal then
        st ← st.fail n "released" "value-dropped-while-a-local-handle-holds-it" line
    return st

/-! ## lazy cases -/

def fetchedText : Lazy.Fetched → String
  | .ok d => s!"ok {toHex d}"
  | .err => "err"

/-- the number of leading frames whose bodies fit into `k` bytes: an upper bound of the frames a
connection that passes only `k` more bytes can deliver (headers and other traffic only make it fewer) -/
def framesWithin : Nat → List Lazy.Frame → Nat
  | _, [] => 0
  | k, f :: fs => if f.body.length ≤ k then 1 + framesWithin (k - f.body.length) fs else 0

def lazyOp (st : St) (n : Nat) (line : String) (lhs : List String) (rhs : List String) : IO St := do
  let s := st.ls
  match lhs, rhs with
  | ["lprovide", kind, _ep, _size, _prov], [hx] =>
    match parseHex hx with
    | some d =>
      let ls0 := Lazy.provide (kind == "b") d s.chunkSz
      return { st with ls := ls0 }
    | none => st.diff n "unparsable" line
  | ["lfwd", _c, _via], r =>
    if r == ["ok"] then return { st with ls := Lazy.lstep s .forward, interesting := true }
    else st.diff n "forward-failed" line
  | ["ldropprov"], _ => return { st with ls := Lazy.lstep s .dropProvider, interesting := true }
  | ["lfetch", hop, budget], r =>
    -- the real result, and the predicates on it
    let real : Option Lazy.Fetched := match r with
      | "ok" :: hx :: _ => (parseHex hx).map Lazy.Fetched.ok
      | "err" :: _ => some .err
      | _ => none
    let mut st := st
    match r with
    | ["hang"] => st ← st.fail n "lazy_fidelity" "fetch-never-returns" line
    | _ => pure ()
    match real with
    | some (.ok d) =>
      if d != s.data then
        let how := if d.length < s.data.length && d == s.data.take d.length then "truncated-value" else "different-value"
        st ← st.fail n "lazy_fidelity" how line
      match r with
      | [_, _, adv] =>
        match kvNat adv "adv" with
        | some a =>
          if a != d.length then st ← st.fail n "lazy_fidelity" "fetched-length-differs-from-advertised-length" line
          if a != s.data.length then st ← st.fail n "lazy_fidelity" "advertised-length-differs-from-provided" line
        | none => pure ()
      | _ => pure ()
    | _ => pure ()
    -- the model
    let armed := hop != "-"
    let cuts : List (Option Nat) := match hop.toNat?, budget.toNat? with
      | some h, some b => (List.replicate h none) ++ [some (framesWithin b (Lazy.chunk s.chunkSz true s.data))]
      | _, _ => []
    let cached := s.cache.isSome
    let s' := Lazy.lstep s (.fetch cuts)
    let expect := s'.results.getLast?.getD .err
    if armed then st := { st with interesting := true, lcut := true }
    -- finding F-C20-2: a LazyBlob that was never sent cannot be fetched (FetchError::Dropped although
    -- nothing was dropped or cut); if the code is repaired the value is accepted as well
    if s.blob && s.hops == 0 && !cached && s.prov == .waiting && !armed then
      match real with
      | some .err =>
        st ← st.fail n "lazy_fidelity" "never-sent-blob-cannot-be-fetched" line
        return { st with ls := s' }
      | some rr => return { st with ls := { s' with cache := some rr, results := s.results ++ [rr] } }
      | none => return { st with ls := s' }
    match real with
    | none => return { st with ls := s' }
    | some rr =>
      if armed && !cached && expect != .err then
        -- the failure point is beyond what the model can place: take the real outcome
        return { st with ls := { s' with cache := some rr, results := s.results ++ [rr] } }
      else if st.lcut && !armed && !cached then
        -- after a cut the connections are gone: only "ok ⇒ equal" is required
        return { st with ls := { s' with cache := some rr, results := s.results ++ [rr] } }
      else
        st := { st with ls := s' }
        if rr != expect then st.diff n s!"fetch-result model={(fetchedText expect).take 40}" line else return st
  | _, _ => st.diff n "unknown-op" line

/-! ## line dispatch -/

def splitEq (l : String) : List String × List String :=
  match l.splitOn " = " with
  | [a, b] => (words a, words b)
  | [a] => (words a, [])
  | _ => ([], [])

def endCase (st : St) : St :=
  if st.mode == .idle then st else
  { st with mode := .idle, cases := st.cases + 1,
            nontrivial := st.nontrivial + (if st.interesting then 1 else 0) }

def step (st : St) (n : Nat) (line : String) : IO St := do
  let l := line.trimAscii.toString
  if l.isEmpty || l.startsWith "#" then return st
  let st := { st with lines := st.lines + 1 }
  let (lhs, rhs) := splitEq l
  match lhs with
  | "case" :: name :: "handle" :: _neps :: conns :: _ =>
    let st := endCase st
    match parseConns conns with
    | some topo =>
      return { st with mode := .handle, name := name, hs := Handle.init topo, slots := #[], objs := #[], msgs := #[],
                       uids := [], interesting := false, caseBad := false }
    | none => st.diff n "unparsable" l
  | "case" :: name :: "lazy" :: _neps :: _conns :: chunk :: _ =>
    let st := endCase st
    match kvNat chunk "chunk" with
    | some c =>
      return { st with mode := .lazy, name := name, ls := Lazy.provide false [] c, lcut := false,
                       interesting := false, caseBad := false }
    | none => st.diff n "unparsable" l
  | ["end"] =>
    return endCase st
  | ["panic"] => st.fail n "panic" "the-real-code-panicked" l
  | ["drops", arg] => if st.mode == .handle then handleDrops st n l arg else st.diff n "drops-outside-handle-case" l
  | _ =>
    match st.mode with
    | .handle => handleOp st n l lhs rhs
    | .lazy => lazyOp st n l lhs rhs
    | .idle => st.diff n "op-outside-case" l

def main : IO Unit := do
  let stdin ← IO.getStdin
  lineLoop stdin ({} : St) 1 step (fun st =>
    let st := endCase st
    IO.println s!"END cases={st.cases} lines={st.lines} diffs={st.diffs} fails={st.fails} nontrivial={st.nontrivial}")
