import RemocModel.Conn.Model
import RemocModel.Conn.Waits
import Driver.Util
/-
Driver for the fail-stop correspondence (C06): traces of a workload on two real endpoints with a
transport fault scheduled at one item index (sink error, stream error, end of stream, silent
one-directional or two-directional stall), a virtual clock, and API calls pending at and started after
the fault.  Checks on the real observations (`FAIL c06`):
  - after a fault both dispatchers have terminated with an error, within `timeout_A + timeout_B` of
    virtual time after the fault, the one that is shown a sink / stream error or the end of the stream at once;
  - no API call is pending at the end (nothing hangs);
  - per port direction the messages received are, in order and byte for byte, the first messages sent;
  - without a fault nothing terminates, however long the connection is idle, and traffic still flows.
  - every call of an endpoint that returns after that endpoint's dispatcher has ended returns an error
    (or what had been queued for it before: data, a request, an answer, a clean end);
and compares the class of each `run` result with `Remoc.Conn.runLoop` on the observed fault, and the error
class of every call that was pending at or started after the end of its dispatcher with the table of the
wait/link model (`Remoc.Conn.ApiOp.afterTerm`, `okAfterTerm`; theorem `api_after_termination`) (`DIFF`).
Output: `END <trace> events=<n> replay=<ok|mismatch> c06=<ok|FAIL> fired=<0|1>`.
-/
open Driver Remoc.Conn

abbrev AL (α : Type) := List (String × α)
def AL.get? {α} (m : AL α) (k : String) : Option α := (m.find? (·.1 == k)).map (·.2)
def AL.set {α} (m : AL α) (k : String) (v : α) : AL α :=
  if m.any (·.1 == k) then m.map (fun p => if p.1 == k then (k, v) else p) else m ++ [(k, v)]

def kvGet (ws : List String) (key : String) : Option String :=
  (ws.find? (·.startsWith (key ++ "="))).map (fun w => (w.drop (key.length + 1)).toString)
def kvNat (ws : List String) (key : String) : Option Nat := (kvGet ws key).bind (·.toNat?)
def other (s : String) : String := if s == "A" then "B" else "A"

structure FSim where
  name : String := ""
  events : Nat := 0
  timeouts : AL Nat := []
  newOk : List String := []
  /-- (side that observes it, kind, virtual time) -/
  fault : Option (String × String × Nat) := none
  faultWire : Option (String × String) := none   -- scheduled: (wire, kind)
  runRes : AL String := []
  runTime : AL Nat := []
  /-- started sends per "port>side" -/
  sent : AL (List String) := []
  /-- delivered messages per "port>side" (sender side) -/
  recvd : AL (List String) := []
  partialMsg : AL String := []
  /-- recv call ↦ "port>senderSide" -/
  recvCalls : AL String := []
  lastTime : Nat := 0
  aliveMarker : Bool := false
  runBeforeAlive : Bool := false
  /-- call id ↦ (script word of the operation, side) -/
  calls : AL (String × String) := []
  /-- sides whose dispatcher has ended with an error -/
  dead : List String := []
  /-- results compared with the classification table -/
  tableChecked : Nat := 0
  replayOk : Bool := true
  c06 : Bool := true
  out : List String := []

def FSim.diff (s : FSim) (line : Nat) (what : String) : FSim :=
  { s with replayOk := false, out := if s.out.length < 10 then s.out ++ [s!"DIFF {s.name} line={line} {what}"] else s.out }
def FSim.fail (s : FSim) (line : Nat) (what : String) : FSim :=
  { s with c06 := false, out := if s.out.length < 10 then s.out ++ [s!"FAIL {s.name} c06 line={line} {what}"] else s.out }

def resOfText (t : String) : Res :=
  if t.startsWith "sink" then .sink else if t.startsWith "stream" then .stream else if t.startsWith "closed" then .closed
  else if t.startsWith "timeout" then .timeout else if t.startsWith "protocol" then .protocol else if t.startsWith "reset" then .reset
  else if t.startsWith "ok" then .ok else .running

def evOfKind (k : String) : Ev :=
  if k == "sink" then .sinkError else if k == "stream" then .streamError else if k == "eof" then .streamClosed else .timeout

/-- script word ↦ API operation of the wait/link model -/
def apiOfWord (w : String) : Option ApiOp :=
  if w == "send" then some .send else if w == "chunks" then some .chunkSend
  else if w == "trysend" then some .trySend else if w == "pconnect" then some .portConnect
  else if w == "closed" then some .senderClosed
  else if w == "recv" || w == "recvany" then some .recv else if w == "recvchunk" then some .recvChunk
  else if w == "close" then some .recvClose
  else if w == "connect" then some .clientConnect else if w == "pconnect-response" then some .connectResponse
  else if w == "accept" then some .accept else if w == "inspect" then some .inspect
  else if w == "reqaccept" then some .reqAccept else if w == "reqreject" then some .reqReject
  else none

/-- result text of a `ret` line ↦ outcome of the model -/
def resOfRet (op : ApiOp) (res : List String) : Option WaitRes :=
  match res with
  | "err" :: "chmux" :: _ =>
    some (.err (match op with
      | .recv | .recvChunk => .recvChMux
      | .clientConnect | .connectResponse => .connectChMux
      | .accept | .inspect | .reqAccept => .listenerMux
      | _ => .sendChMux))
  | "err" :: "closed" :: g :: _ => some (.err (.sendClosed (g == "gracefully=1")))
  | "err" :: "rejected" :: _ => some (.err .connectRejected)
  | "err" :: _ => none                      -- not a class of the fail-stop table (ports exhausted, max data, cancelled …)
  | "closed" :: _ => some .unit
  | "none" :: _ => some .endOfStream
  | "ok" :: _ => if op == .recvClose || op == .reqReject then some .unit else some .ok
  | "data" :: _ | "chunks" :: _ | "chunk" :: _ | "requests" :: _ | "req" :: _ => some .ok
  | "dropped" :: _ => some .ok
  | _ => none

def lastLink (op : ApiOp) : LinkKind := (op.waits.getLast?.map (·.1)).getD .evq

/-- is the real outcome of a call that ended after its dispatcher one the model allows?
`some true`: yes; `some false`: no, and it is not even an error (property violation); `none`: an error
of another class than the model's table (correspondence mismatch) -/
def judgeAfterTerm (op : ApiOp) (r : WaitRes) : Option Bool :=
  let exp := op.afterTerm false
  if r == exp || r == op.afterTerm true then some true
  else match r with
    | .err _ => none
    | _ =>
      -- values queued / answered before the failure are still handed out (value-first links)
      if okAfterTerm (lastLink op) r then some true
      -- a send whose last chunk had been queued before the failure may complete
      else some false

def isPrefixS : List String → List String → Bool
  | [], _ => true
  | _ :: _, [] => false
  | a :: as, b :: bs => a == b && isPrefixS as bs

def FSim.finish (s : FSim) (line : Nat) (pendingEnd : String) (ra rb : String) : FSim :=
  -- prefix property, always
  let s := s.recvd.foldl (fun s (key, got) =>
    let started := (s.sent.get? key).getD []
    if isPrefixS got started then s
    else s.fail line s!"{key}: received {got} is not a prefix of the messages sent {started}") s
  match s.fault with
  | none =>
    -- no fault fired: nothing may have terminated with an error
    let s := if (ra != "running" && ra != "ok") || (rb != "running" && rb != "ok") then
        s.fail line s!"no transport fault occurred but the dispatchers ended with A={ra} B={rb}" else s
    s
  | some (obs, kind, tf) =>
    -- the fault fired too late in the script for the timeouts to have elapsed: only the prefix check applies
    if s.lastTime < tf + (s.timeouts.get? "A").getD 0 + (s.timeouts.get? "B").getD 0 + 50 then s else
    let s := if pendingEnd != "-" then s.fail line s!"after a {kind} fault observed by {obs} these calls never completed: {pendingEnd}" else s
    ["A", "B"].foldl (fun s x =>
      if !s.newOk.contains x then s else
      let r := if x == "A" then ra else rb
      let s := if r == "running" || r == "ok" then s.fail line s!"dispatcher {x} did not terminate with an error after the {kind} fault (result: {r})" else s
      -- classification against the model of the run loop
      let expected : Res :=
        if x == obs then runLoop [Ev.work, evOfKind kind] else runLoop [Ev.work, Ev.work, Ev.timeout]
      let s := if r != "running" && resOfText r != expected && !(kind == "stallboth") then
          s.diff line s!"dispatcher {x}: the model's run loop ends with {repr expected}, the real one with '{r}'" else s
      -- bounded time
      let ta := (s.timeouts.get? "A").getD 0
      let tb := (s.timeouts.get? "B").getD 0
      match s.runTime.get? x with
      | some t =>
        -- the endpoint that is shown an error (not a silent stall) ends at once, not at its timeout
        let s := if x == obs && (kind == "sink" || kind == "stream" || kind == "eof") && t > tf + 5 then
            s.fail line s!"dispatcher {x} was shown the {kind} fault at t={tf} and ended only at t={t}: not as soon as it could observe the fault" else s
        if t > tf + ta + tb + 10 then
          s.fail line s!"dispatcher {x} terminated {t - tf} ms after the fault, more than timeout_A + timeout_B = {ta + tb} ms" else s
      | none => s) s

structure FAcc where
  sim : FSim := {}
  traces : Nat := 0

def finishTrace (s : FSim) : IO Unit := do
  if s.name != "" then
    for l in s.out do IO.println l
    IO.println s!"END {s.name} events={s.events} replay={if s.replayOk then "ok" else "mismatch"} c06={if s.c06 then "ok" else "FAIL"} fired={if s.fault.isSome then 1 else 0} table={s.tableChecked}"

def stepLine (a : FAcc) (n : Nat) (line : String) : IO FAcc := do
  let ws := words line
  let s := { a.sim with events := a.sim.events + 1 }
  match ws with
  | ["trace", name] =>
    finishTrace a.sim
    return { sim := { name := name }, traces := a.traces + 1 }
  | "cfg" :: x :: rest =>
    return { a with sim := { s with timeouts := s.timeouts.set x ((kvNat rest "timeout").getD 0) } }
  | ["new", x, "ok"] => return { a with sim := { s with newOk := s.newOk ++ [x] } }
  | "fault" :: obs :: kind :: rest =>
    return { a with sim := { s with fault := some (obs, kind, (kvNat rest "t").getD 0) } }
  | "run" :: x :: res =>
    let r := " ".intercalate res
    let s := { s with runRes := s.runRes.set x r, runBeforeAlive := s.runBeforeAlive || !s.aliveMarker,
                      dead := if r.startsWith "ok" then s.dead else s.dead ++ [x] }
    return { a with sim := s }
  | ["runtime", x, t] => return { a with sim := { s with runTime := s.runTime.set x (t.toNat?.getD 0) } }
  | ["op", "send", k, x, port, hx] =>
    let key := port ++ ">" ++ x
    return { a with sim := { s with calls := s.calls.set k ("send", x), sent := s.sent.set key (((s.sent.get? key).getD []) ++ [hx]) } }
  | "op" :: "chunks" :: k :: x :: port :: parts :: _ =>
    let s := { s with calls := s.calls.set k ("chunks", x) }
    let key := port ++ ">" ++ x
    let whole := if parts == "none" then "-" else
      let j := "".intercalate ((parts.splitOn ",").filter (· != "-"))
      if j == "" then "-" else j
    return { a with sim := { s with sent := s.sent.set key (((s.sent.get? key).getD []) ++ [whole]) } }
  | [opk, "recvany", k, x, port] =>
    if opk == "op" || opk == "opd" then
      return { a with sim := { s with calls := s.calls.set k ("recvany", x), recvCalls := s.recvCalls.set k (port ++ ">" ++ other x) } }
    else return { a with sim := s }
  | [opk, "recvchunk", k, x, port] =>
    if opk == "op" || opk == "opd" then
      return { a with sim := { s with calls := s.calls.set k ("recvchunk", x), recvCalls := s.recvCalls.set k (port ++ ">" ++ other x) } }
    else return { a with sim := s }
  | "ret" :: k :: res =>
    -- classification of calls that end after their dispatcher
    let call : Option (String × String) := match s.calls.get? k with
      | some c => some c
      | none =>
        -- `k.i`: the i-th connect of a `pconnect k` (response task of `Sender::connect`)
        let parent := ".".intercalate ((k.splitOn ".").dropLast)
        match s.calls.get? parent with
        | some ("pconnect", x) => some ("pconnect-response", x)
        | _ => none
    let s := match call with
      | some (w, x) =>
        -- `err no-such-handle` / `no-client` / `no-listener`: the script named an object that never came to
        -- exist (connection cut inside the handshake); no API call was made
        let harnessOnly := match res with
          | "err" :: c :: _ => c.startsWith "no-"
          | _ => false
        if !s.dead.contains x || harnessOnly then s else
        match apiOfWord w with
        | none => s
        | some op =>
          let s := { s with tableChecked := s.tableChecked + 1 }
          match resOfRet op res with
          | none => s.diff n s!"call {k} ({w} on {x}) ended after its dispatcher with '{" ".intercalate res}', which is not a result of the fail-stop table (expected {repr (op.afterTerm false)})"
          | some r =>
            match judgeAfterTerm op r with
            | some true => s
            | some false => s.fail n s!"call {k} ({w} on {x}) ended after its dispatcher had terminated with '{" ".intercalate res}' instead of an error (model: {repr (op.afterTerm false)})"
            | none => s.diff n s!"call {k} ({w} on {x}) ended after its dispatcher with '{" ".intercalate res}', the model's table says {repr (op.afterTerm false)}"
      | none => s
    match s.recvCalls.get? k with
    | none => return { a with sim := s }
    | some key =>
      match res with
      | ["data", hx] =>
        return { a with sim := { s with recvd := s.recvd.set key (((s.recvd.get? key).getD []) ++ [hx]) } }
      | ["chunks"] => return { a with sim := { s with partialMsg := s.partialMsg.set key "" } }
      | ["chunk", hx] =>
        match s.partialMsg.get? key with
        | some acc => return { a with sim := { s with partialMsg := s.partialMsg.set key (acc ++ (if hx == "-" then "" else hx)) } }
        | none => return { a with sim := s }
      | ["none"] =>
        match s.partialMsg.get? key with
        | some acc =>
          let s := { s with partialMsg := s.partialMsg.filter (·.1 != key) }
          -- `none` after chunks: end of the chunked message (only if the call was a recv_chunk)
          if k.endsWith ".0" then return { a with sim := s }
          else return { a with sim := { s with recvd := s.recvd.set key (((s.recvd.get? key).getD []) ++ [if acc == "" then "-" else acc]) } }
        | none => return { a with sim := s }
      | _ => return { a with sim := { s with partialMsg := s.partialMsg.filter (·.1 != key) } }
  | ["op", "expect-alive"] =>
    let s := { s with aliveMarker := true }
    let s := if !s.runRes.isEmpty then
        s.fail n s!"the idle but healthy connection was torn down: {s.runRes.map (fun (x, r) => x ++ "=" ++ r)}" else s
    let delivered : Nat := s.recvd.foldl (fun (acc : Nat) (p : String × List String) => acc + p.2.length) 0
    let s := if delivered < 2 then s.fail n s!"traffic after the idle periods did not arrive ({delivered} of 2 messages)" else s
    return { a with sim := s }
  | "op" :: w :: k :: x :: _ =>
    if (apiOfWord w).isSome && (x == "A" || x == "B") then return { a with sim := { s with calls := s.calls.set k (w, x) } }
    else return { a with sim := s }
  | ["time", t] => return { a with sim := { s with lastTime := t.toNat?.getD s.lastTime } }
  | "end" :: rest =>
    let p := (kvGet rest "pending").getD "-"
    let ra := (kvGet rest "runA").getD "running"
    let rb := (kvGet rest "runB").getD "running"
    -- the idle workload ends with an orderly shutdown: not part of the fault checks
    let s := if s.aliveMarker then s else s.finish n p ra rb
    return { a with sim := s }
  | "panic" :: rest => return { a with sim := s.fail n ("panic: " ++ " ".intercalate rest) }
  | _ => return { a with sim := s }

def main : IO Unit := do
  let stdin ← IO.getStdin
  lineLoop stdin ({} : FAcc) 1 stepLine (fun a => do
    finishTrace a.sim
    IO.println s!"DONE traces={a.traces}")
