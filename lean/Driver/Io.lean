import Driver.Util
import RemocModel.Io.Model
/-
Driver for the C18 correspondence check (M_io).  Reads the trace of `harness/src/bin/io.rs`
(real `rch::io` channel across a real connection) and, per case,

 (i)  replays every API result on the model: the label must be enabled and the output equal
      (`DIFF <case> …` otherwise).  Environment labels that the trace cannot show (`notice`,
      `lose`, `loseSize`, the slice length of a read) are chosen lazily, only among those the
      model enables;
 (ii) evaluates the property predicates on the real observations alone (`FAIL <case> …`):
      bytes read are a prefix of bytes accepted at every read; a successful end-of-file only with
      bytes read = bytes accepted = fixed size / size announced by a successful shutdown; never more
      accepted than the fixed size; accessors equal the observed totals; no panic; no operation
      hangs when the model says it can complete.

Lines:  case <name> mode=<N|u> chunk=<c> exact=<0|1> …
        call s <k> write <hex>|flush|shutdown     ret s <k> ok [<n>] | err <kind>     probe s <bw> <exp|->
        call r <k> read <n>                       ret r <k> ok <hex> | err <kind>     probe r <br> <size|->
        pend <s|r> <k> | cancelled <s|r> <k> | move s | drop <s|r> | cut | hang <s|r> <k> | panic … | end
Output: DIFF/FAIL lines and `END <case> events=<n> replay=<ok|diff> pred=<ok|fail> outcome=<…>` per case,
        `TOTAL cases=<n> diffs=<n> fails=<n>` at the end.
-/
open Driver Remoc.Io

structure Case where
  name : String := ""
  active : Bool := false
  cfg : Cfg := { chunk := 1, fixed := none }
  st : State := init { chunk := 1, fixed := none }
  exact : Bool := false
  sCall : Option Label := none
  sOffered : Bytes := []
  rCall : Option Nat := none
  /-- replay still in step with the model -/
  inStep : Bool := true
  events : Nat := 0
  diffs : Nat := 0
  fails : Nat := 0
  -- real observations
  acc : Bytes := []
  rcv : Bytes := []
  eofSeen : Bool := false
  errSeen : Bool := false
  shutdownOk : Option Nat := none
  shutdowns : Nat := 0
  segReads : Nat := 0
  /-- real observations: a chunk accepted by the last write has not been handed over by a later
  successful sender call; a sender call failed with a port error; a fault was injected -/
  inflight : Bool := false
  txErrSeen : Bool := false
  faulty : Bool := false
  cancels : Nat := 0
  hangR : Bool := false
  hangS : Bool := false
  lazyLabels : Nat := 0

structure St where
  cur : Case := {}
  cases : Nat := 0
  diffs : Nat := 0
  fails : Nat := 0

def kv (ws : List String) (key : String) : Option String :=
  ws.findSome? fun w => match w.splitOn "=" with
    | [k, v] => if k == key then some v else none
    | _ => none

def errName : Err → String
  | .writeZero => "writezero"
  | .brokenPipe => "brokenpipe"
  | .unexpectedEof => "eof"
  | .connReset => "reset"

/-- does the real error kind match the model's error? (all port failures count as `reset`) -/
def errMatches (e : Err) (kind : String) : Bool :=
  match e with
  | .connReset => kind == "reset" || kind == "aborted" || kind == "refused"
  | _ => errName e == kind

def showOut : Out → String
  | .none => "none"
  | .wrote n => s!"ok {n}"
  | .done => "ok"
  | .txErr e => s!"err {errName e}"
  | .data bs => s!"ok {toHex bs}"
  | .rxErr e => s!"err {errName e}"
  | .pending => "pending"

/-- the real result of an operation, parsed -/
inductive Real where
  | okN (n : Nat)
  | ok
  | okBytes (bs : Bytes)
  | err (kind : String)

def outMatches : Out → Real → Bool
  | .wrote n, .okN m => n == m
  | .done, .ok => true
  | .txErr e, .err k => errMatches e k
  | .data bs, .okBytes cs => bs == cs
  | .rxErr e, .err k => errMatches e k
  | _, _ => false

def isPrefixB : Bytes → Bytes → Bool
  | [], _ => true
  | _ :: _, [] => false
  | a :: as, b :: bs => a == b && isPrefixB as bs

def diff (c : Case) (msg : String) : IO Case := do
  IO.println s!"DIFF {c.name} ev={c.events} {msg}"
  return { c with diffs := c.diffs + 1, inStep := false }

def fail (c : Case) (msg : String) : IO Case := do
  IO.println s!"FAIL {c.name} ev={c.events} {msg}"
  return { c with fails := c.fails + 1 }

/-- apply an environment label the trace cannot show, if the model enables it -/
def tryEnv (c : Case) (l : Label) : Option Case :=
  match stepOut c.cfg c.st l with
  | some (_, s') => some { c with st := s', lazyLabels := c.lazyLabels + 1 }
  | none => none

/-- Replay a sender operation result. -/
def replayTx (c : Case) (l : Label) (real : Real) : IO Case := do
  if !c.inStep then return c
  match stepOut c.cfg c.st l with
  | none => diff c s!"sender op returned but is not enabled in the model (sender dropped or failed) label={repr l}"
  | some (o, s') =>
    if outMatches o real then return { c with st := s' }
    else
      -- the port may have learnt of a dropped receiver / lost connection by now
      match real, tryEnv c .notice with
      | .err _, some c1 =>
        match stepOut c1.cfg c1.st l with
        | some (o1, s1) =>
          if outMatches o1 real then return { c1 with st := s1 }
          else diff c s!"sender result differs: model={showOut o1} (after notice)"
        | none => diff c "sender op not enabled after notice"
      | _, _ => diff c s!"sender result differs: model={showOut o}"

/-- Try to match a read result: whole rest (seg 0), then a slice of the observed length; after a
cut additionally let in-transit elements get lost one by one. -/
def matchRead (c : Case) (n : Nat) (real : Real) : Nat → Option Case
  | 0 => none
  | fuel + 1 =>
    let segs : List Nat := match real with
      | .okBytes bs => if bs.isEmpty then [0] else [0, bs.length]
      | _ => [0]
    let hit := segs.findSome? fun seg =>
      match stepOut c.cfg c.st (.read n seg) with
      | some (o, s') => if outMatches o real then some (seg, s') else none
      | none => none
    match hit with
    | some (seg, s') => some { c with st := s', segReads := c.segReads + (if seg == 0 then 0 else 1) }
    | none =>
      match tryEnv c .lose with
      | some c1 => matchRead c1 n real fuel
      | none =>
        match tryEnv c .loseSize with
        | some c1 => matchRead c1 n real fuel
        | none => none

def modelReadOut (c : Case) (n : Nat) : String :=
  match stepOut c.cfg c.st (.read n 0) with
  | some (o, _) => showOut o
  | none => "not-enabled"

def finishCase (st : St) : IO St := do
  let c := st.cur
  if !c.active then return st
  let outcome :=
    if c.eofSeen then "eof" else if c.errSeen then "error" else if c.hangR then "pending" else "open"
  IO.println s!"END {c.name} events={c.events} replay={if c.diffs == 0 then "ok" else "diff"} pred={if c.fails == 0 then "ok" else "fail"} outcome={outcome} accepted={c.acc.length} received={c.rcv.length} segreads={c.segReads} lazy={c.lazyLabels} cancels={c.cancels}"
  return { st with cur := {}, cases := st.cases + 1, diffs := st.diffs + c.diffs, fails := st.fails + c.fails }

def parseReal (ws : List String) (bytesResult : Bool) : Option Real :=
  match ws with
  | ["ok"] => some .ok
  | ["ok", x] => if bytesResult then (parseHex x).map .okBytes else x.toNat?.map .okN
  | ["err", k] => some (.err k)
  | _ => none

def optNat (s : String) : Option (Option Nat) :=
  if s == "-" then some none else s.toNat?.map some

def stepCase (c : Case) (ws : List String) : IO Case := do
  let c := { c with events := c.events + 1 }
  match ws with
  | ["call", "s", _, "write", hx] =>
    match parseHex hx with
    | some bs => return { c with sCall := some (.write bs), sOffered := bs }
    | none => diff c "unparsable write"
  | ["call", "s", _, "flush"] => return { c with sCall := some .flush, sOffered := [] }
  | ["call", "s", _, "shutdown"] => return { c with sCall := some .shutdown, sOffered := [] }
  | ["call", "r", _, "read", n] =>
    match n.toNat? with
    | some n => return { c with rCall := some n }
    | none => diff c "unparsable read"
  | ["pend", "s", _] => return c
  | ["cancelled", "s", _] =>
    -- a pending `poll_write` has no effect on the sender (the hand-over in progress stays in the sender)
    return { c with sCall := none, cancels := c.cancels + 1 }
  | ["cancelled", "r", _] =>
    let c := { c with cancels := c.cancels + 1 }
    -- the pending poll may have started a receive / the size verification; nothing else
    match c.rCall with
    | some n =>
      let c := { c with rCall := none }
      if c.exact || !c.inStep then return c   -- (exact: already applied at `pend`)
      match stepOut c.cfg c.st (.read n 0) with
      | some (.pending, s') => return { c with st := s' }
      | _ => return c
    | none => return c
  | ["pend", "r", _] =>
    -- at a quiescent point of a run without faults the model decides whether a read can complete
    if c.exact && c.inStep then
      match c.rCall with
      | some n =>
        match stepOut c.cfg c.st (.read n 0) with
        | some (.pending, s') => return { c with st := s' }
        | some (o, _) => diff c s!"read is pending at quiescence but the model completes it with {showOut o}"
        | none => diff c "read pending but not enabled in the model"
      | none => diff c "pend without call"
    else return c
  | "ret" :: "s" :: _ :: res =>
    match c.sCall, parseReal res false with
    | some l, some real =>
      let c := { c with sCall := none }
      -- predicates on the real observations
      let c ← match l, real with
        | .write bs, .okN n => do
          let mut c := c
          if n > bs.length then c ← fail c "write reports more bytes than offered"
          if n > 0 && c.eofSeen then c ← fail c "bytes accepted after the reader was told end-of-file"
          if n > 0 && c.shutdownOk.isSome then c ← fail c "bytes accepted after a successful shutdown"
          c := { c with acc := c.acc ++ bs.take n, inflight := decide (n > 0) }
          match c.cfg.fixed with
          | some N => if c.acc.length > N then c ← fail c "overlong: more bytes accepted than the fixed size"
          | none => pure ()
          pure c
        | .shutdown, .ok => do
          let first := c.shutdowns == 0
          let c := { c with shutdowns := c.shutdowns + 1 }
          match c.cfg.fixed with
          | some N =>
            -- (a repeated shutdown succeeds on the real code: the first one replaced the expected size)
            if first && c.acc.length ≠ N then fail c "sized shutdown succeeded although bytes accepted differ from the fixed size"
            else pure c
          | none => pure (if c.shutdownOk.isNone then { c with shutdownOk := some c.acc.length } else c)
        | .shutdown, .err _ => pure { c with shutdowns := c.shutdowns + 1 }
        | _, _ => pure c
      -- every call that returns without a port error has completed the pending hand-over
      let c := match real with
        | .err k => if k == "writezero" || k == "brokenpipe" || k == "eof" then { c with inflight := false }
                    else { c with txErrSeen := true }
        | .okN n => { c with inflight := decide (n > 0) }
        | _ => { c with inflight := false }
      replayTx c l real
    | _, _ => diff c "ret s without call / unparsable"
  | ["probe", "s", bw, exp] =>
    match bw.toNat?, optNat exp with
    | some bw, some exp =>
      let mut c := c
      if bw ≠ c.acc.length then c ← fail c "bytes_written accessor differs from the bytes accepted so far"
      if c.inStep then
        let mexp := match c.st.tx.mode with | .known n => some n | .unknown => none
        if c.st.tx.bytesWritten ≠ bw || mexp ≠ exp then
          c ← diff c s!"sender accessors differ: model bytes_written={c.st.tx.bytesWritten} expected={repr mexp}"
      return c
    | _, _ => diff c "unparsable probe"
  | "ret" :: "r" :: _ :: res =>
    match c.rCall, parseReal res true with
    | some n, some real =>
      let c := { c with rCall := none }
      let c ← match real with
        | .okBytes bs => do
          let mut c := { c with rcv := c.rcv ++ bs }
          if bs.length > n then c ← fail c "read returned more bytes than the buffer holds"
          if !bs.isEmpty && c.eofSeen then c ← fail c "data after end-of-file was reported"
          if !isPrefixB c.rcv c.acc then c ← fail c "bytes read are not a prefix of the bytes accepted"
          if bs.isEmpty && n > 0 then
            -- end-of-file reported successfully
            if c.rcv ≠ c.acc then c ← fail c "end-of-file reported but bytes read differ from bytes accepted (silent truncation)"
            match c.cfg.fixed with
            | some N => if c.rcv.length ≠ N then c ← fail c "end-of-file reported but total differs from the fixed size"
            | none =>
              if c.shutdownOk ≠ some c.rcv.length then
                c ← fail c "end-of-file reported on an unsized channel without a successful shutdown announcing this total"
            c := { c with eofSeen := true }
          pure c
        | .err _ => do
          let mut c := c
          if c.eofSeen then c ← fail c "error after end-of-file was reported"
          -- the converse of the decision table: a stream the sender completed without any fault must end in EOF
          let complete := !c.faulty && !c.txErrSeen && !c.inflight &&
            (match c.cfg.fixed with
             | some N => c.acc.length == N
             | none => c.shutdownOk.isSome)
          if complete && !c.errSeen then
            c ← fail c "the sender completed the stream (all bytes handed over, size reached or announced, no fault) but the reader got an error"
          pure { c with errSeen := true }
        | _ => pure c
      if !c.inStep then return c
      match matchRead c n real (c.st.ch.data.length + 4) with
      | some c' => return c'
      | none => diff c s!"read result differs: model={modelReadOut c n}"
    | _, _ => diff c "ret r without call / unparsable"
  | ["probe", "r", br, sz] =>
    match br.toNat?, optNat sz with
    | some br, some sz =>
      let mut c := c
      if br ≠ c.rcv.length then c ← fail c "bytes_received accessor differs from the bytes read so far"
      if c.inStep then
        let msz := match c.st.rx.sizeInfo with | .determined n => some n | _ => none
        if c.st.rx.bytesRead ≠ br || msz ≠ sz then
          c ← diff c s!"receiver accessors differ: model bytes_read={c.st.rx.bytesRead} size={repr msz}"
      return c
    | _, _ => diff c "unparsable probe"
  | ["move", "s"] =>
    -- shipping the sender with a chunk in flight loses that chunk (and the port)
    let c := if c.inflight then { c with faulty := true, inflight := false } else c
    if !c.inStep then return c
    match stepOut c.cfg c.st .moveTx with
    | some (_, s') => return { c with st := s' }
    | none => diff c "move s not enabled"
  | ["drop", "s"] =>
    if !c.inStep then return c
    match stepOut c.cfg c.st .dropTx with
    | some (_, s') => return { c with st := s' }
    | none => diff c "drop s not enabled"
  | ["drop", "r"] =>
    let c := { c with faulty := true }
    if !c.inStep then return c
    match stepOut c.cfg c.st .dropRx with
    | some (_, s') => return { c with st := s' }
    | none => diff c "drop r not enabled"
  | ["cut"] =>
    let c := { c with faulty := true }
    if !c.inStep then return c
    match stepOut c.cfg c.st .cut with
    | some (_, s') => return { c with st := s' }
    | none => diff c "cut not enabled"
  | ["hang", "r", _] =>
    let c := { c with hangR := true }
    if !c.inStep then return c
    match c.rCall with
    | some n =>
      match stepOut c.cfg c.st (.read n 0) with
      | some (.pending, _) => return c
      | some (o, _) => fail c s!"read never completes although the model completes it with {showOut o} (hang)"
      | none => return c
    | none => return c
  | ["hang", "s", _] =>
    let c := { c with hangS := true }
    if !c.inStep then return c
    -- flow control may block the sender only while something is waiting to be read
    if c.st.ch.data.isEmpty && !c.st.ch.rxGone && !c.st.cutDone then
      fail c "sender operation never completes although nothing is waiting to be read (hang)"
    else return c
  | "panic" :: rest => fail c s!"panic: {" ".intercalate rest}"
  | _ => diff c s!"unknown line: {" ".intercalate ws}"

def step (st : St) (_n : Nat) (line : String) : IO St := do
  let l := line.trimAscii.toString
  if l.isEmpty || l.startsWith "#" then return st
  let ws := words l
  match ws with
  | "case" :: name :: rest =>
    let st ← finishCase st
    let fixed := (kv rest "mode").bind (·.toNat?)
    let chunk := ((kv rest "chunk").bind (·.toNat?)).getD 1
    let cfg : Cfg := { chunk := chunk, fixed := fixed }
    -- `severed=1`: placement in which the data port is dead from the start (both halves shipped away)
    let s0 := if kv rest "severed" == some "1" then run cfg (init cfg) [.sever, .notice] else init cfg
    return { st with cur := { name := name, active := true, cfg := cfg, st := s0,
                              exact := kv rest "exact" == some "1",
                              faulty := kv rest "severed" == some "1" } }
  | ["end"] => finishCase st
  | _ =>
    if !st.cur.active then return st
    let c ← stepCase st.cur ws
    return { st with cur := c }

def main : IO Unit := do
  let stdin ← IO.getStdin
  lineLoop stdin ({} : St) 1 step (fun st => do
    let st ← finishCase st
    IO.println s!"TOTAL cases={st.cases} diffs={st.diffs} fails={st.fails}")
