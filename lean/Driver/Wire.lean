import Driver.WireText
/-
Driver for the C09 unit-level differential.  Input lines:
  enc <msg text> | <hex>      real encoder output for that message
  dec <hex> | <msg text>|ERR eof|ERR invalid     real decoder result for those bytes
  frm <hex payload> | <hex framed>               Connect::io framing of one payload
  peer <version> <msg text> | <msg text>         what the real endpoint put on the wire for a
                                                 peer of that version (ids stripped or not)
Output: one `DIFF …` line per disagreement and a final `END lines=<n> diffs=<n>`.
-/
open Driver Remoc.Wire

structure St where
  lines : Nat := 0
  diffs : Nat := 0
  -- peer mode (traces of one real endpoint talking to a spec peer of a given version)
  trace : String := ""
  peerVersion : Nat := 3
  started : Bool := false
  payloadNext : Bool := false
  apiIds : List (Nat × Nat) := []
  frames : Nat := 0
  idFrames : Nat := 0

def splitBar (s : String) : Option (String × String) :=
  match s.splitOn " | " with
  | [a, b] => some (a.trimAscii.toString, b.trimAscii.toString)
  | _ => none

def step (st : St) (n : Nat) (line : String) : IO St := do
  let l := line.trimAscii.toString
  if l.isEmpty || l.startsWith "#" then return st
  let bad (why : String) : IO St := do
    IO.println s!"DIFF line={n} {why} :: {l}"
    return { st with lines := st.lines + 1, diffs := st.diffs + 1 }
  let ok : IO St := return { st with lines := st.lines + 1 }
  -- ---- peer mode: lines of a `mux` trace
  match words l with
  | ["trace", name] => return { st with trace := name, peerVersion := 3, started := false, payloadNext := false, apiIds := [] }
  | ["injected", _, "hello", v, _, _, _, _] => return { st with peerVersion := v.toNat?.getD 3 }
  | ["apiid", p, i] => return { st with apiIds := st.apiIds ++ [(p.toNat?.getD 0, i.toNat?.getD 0)] }
  | ["new", "B", "ok"] => return { st with started := true }
  | ["tx", "B", hx] =>
    if !st.started then return st else
    if st.payloadNext then return { st with payloadNext := false } else
    match parseHex hx with
    | none => bad "unparsable hex"
    | some bs =>
      match decode bs with
      | .error _ => bad s!"{st.trace}: the real endpoint emitted a frame the v3 spec decoder rejects"
      | .ok m =>
        let st := { st with frames := st.frames + 1, lines := st.lines + 1 }
        let idOf := fun (p : Nat) => ((st.apiIds.find? (·.1 == p)).map (·.2)).getD p
        -- the frame must be exactly the spec encoding of what it decodes to (no stray bytes)
        if encode m != bs then bad s!"{st.trace}: frame is not the canonical v3 encoding of {msgToText m}" else
        match m with
        | .data _ _ _ => return { st with payloadNext := true }
        | .openPort p w id =>
          let api := Msg.openPort p w (some (idOf p))
          if forPeer st.peerVersion api == m then return { st with idFrames := st.idFrames + 1 }
          else bad s!"{st.trace}: to a version {st.peerVersion} peer the spec sends {msgToText (forPeer st.peerVersion api)}, the real endpoint sent {msgToText m}"
        | .portData p f lst w ps ids =>
          let api := Msg.portData p f lst w ps (some (ps.map idOf))
          if forPeer st.peerVersion api == m then return { st with idFrames := st.idFrames + 1 }
          else
            let _ := ids
            bad s!"{st.trace}: to a version {st.peerVersion} peer the spec sends {msgToText (forPeer st.peerVersion api)}, the real endpoint sent {msgToText m}"
        | _ => return st
  | _ =>
  if (l.startsWith "op " || l.startsWith "opd " || l.startsWith "rx " || l.startsWith "tx " || l.startsWith "cfg " || l.startsWith "ret " ||
      l.startsWith "port " || l.startsWith "credits " || l.startsWith "settled " || l.startsWith "sent " || l.startsWith "end " ||
      l.startsWith "run " || l.startsWith "cancelled " || l.startsWith "injected " || l.startsWith "new " || l.startsWith "tasks " ||
      l.startsWith "alloc " || l.startsWith "listen " || l.startsWith "time " || l.startsWith "runtime " || l.startsWith "fault " ||
      l.startsWith "livelock " || l.startsWith "byte " || l.startsWith "item " || l.startsWith "panic") then return st else
  match splitBar l with
  | none => bad "malformed"
  | some (lhs, rhs) =>
    match words lhs with
    | "enc" :: ws =>
      match parseMsg ws, parseHex rhs with
      | some m, some bs =>
        if encode m == bs then ok else bad s!"enc spec={toHex (encode m)}"
      | _, _ => bad "unparsable"
    | ["dec", hx] =>
      match parseHex hx with
      | some bs =>
        let t := decodeToText bs
        if t == rhs then ok else bad s!"dec spec={t}"
      | none => bad "unparsable"
    | ["frm", hx] =>
      match parseHex hx, parseHex rhs with
      | some p, some f => if frame p == f then ok else bad s!"frm spec={toHex (frame p)}"
      | _, _ => bad "unparsable"
    | "peer" :: v :: ws =>
      match v.toNat?, parseMsg ws, parseMsg (words rhs) with
      | some v, some m, some onWire =>
        if forPeer v m == onWire then ok else bad s!"peer spec={msgToText (forPeer v m)}"
      | _, _, _ => bad "unparsable"
    | _ => bad "unknown-op"

def main : IO Unit := do
  let stdin ← IO.getStdin
  lineLoop stdin ({} : St) 1 step (fun st => IO.println s!"END lines={st.lines} diffs={st.diffs} frames={st.frames} idframes={st.idFrames}")
