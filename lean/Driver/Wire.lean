import Driver.WireText
/-
Driver for the C09 unit-level differential.  Input lines:
  enc <msg text> | <hex>      real encoder output for that message
  dec <hex> | <msg text>|ERR eof|ERR invalid     real decoder result for those bytes
  frm <hex payload> | <hex framed>               Connect::io framing of one payload
  peer <version> <msg text> | <msg text>         what the real endpoint put on the wire for a
                                                 peer of that version (ids stripped or not)
Output: one `DIFF …` line per disagreement and a final `END lines=<n> diffs=<n>`.
-/
open Driver Remoc.Wire

structure St where
  lines : Nat := 0
  diffs : Nat := 0

def splitBar (s : String) : Option (String × String) :=
  match s.splitOn " | " with
  | [a, b] => some (a.trimAscii.toString, b.trimAscii.toString)
  | _ => none

def step (st : St) (n : Nat) (line : String) : IO St := do
  let l := line.trimAscii.toString
  if l.isEmpty || l.startsWith "#" then return st
  let bad (why : String) : IO St := do
    IO.println s!"DIFF line={n} {why} :: {l}"
    return { st with lines := st.lines + 1, diffs := st.diffs + 1 }
  let ok : IO St := return { st with lines := st.lines + 1 }
  match splitBar l with
  | none => bad "malformed"
  | some (lhs, rhs) =>
    match words lhs with
    | "enc" :: ws =>
      match parseMsg ws, parseHex rhs with
      | some m, some bs =>
        if encode m == bs then ok else bad s!"enc spec={toHex (encode m)}"
      | _, _ => bad "unparsable"
    | ["dec", hx] =>
      match parseHex hx with
      | some bs =>
        let t := decodeToText bs
        if t == rhs then ok else bad s!"dec spec={t}"
      | none => bad "unparsable"
    | ["frm", hx] =>
      match parseHex hx, parseHex rhs with
      | some p, some f => if frame p == f then ok else bad s!"frm spec={toHex (frame p)}"
      | _, _ => bad "unparsable"
    | "peer" :: v :: ws =>
      match v.toNat?, parseMsg ws, parseMsg (words rhs) with
      | some v, some m, some onWire =>
        if forPeer v m == onWire then ok else bad s!"peer spec={msgToText (forPeer v m)}"
      | _, _, _ => bad "unparsable"
    | _ => bad "unknown-op"

def main : IO Unit := do
  let stdin ← IO.getStdin
  lineLoop stdin ({} : St) 1 step (fun st => IO.println s!"END lines={st.lines} diffs={st.diffs}")
