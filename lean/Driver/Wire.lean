import Driver.WireText
/-
Driver for the C09 unit-level differential.  Input lines:
  enc <msg text> | <hex>      real encoder output for that message
  dec <hex> | <msg text>|ERR eof|ERR invalid     real decoder result for those bytes
  frm <hex payload> | <hex framed>               Connect::io framing of one payload
  peer <version> <msg text> | <msg text>         what the real endpoint put on the wire for a
                                                 peer of that version (ids stripped or not)
Output: one `DIFF …` line per disagreement and a final `END lines=<n> diffs=<n>`.
-/
open Driver Remoc.Wire

structure St where
  lines : Nat := 0
  diffs : Nat := 0
  -- peer mode (traces of one real endpoint talking to a spec peer of a given version)
  trace : String := ""
  peerVersion : Nat := 3
  started : Bool := false
  payloadNext : Bool := false
  apiIds : List (Nat × Nat) := []
  frames : Nat := 0
  idFrames : Nat := 0
  -- stream mode (a real `Connect::io` endpoint talking to a byte-level spec peer)
  sBytes : List UInt8 := []
  sRealChunk : Nat := 0
  sPeerChunk : Nat := 0
  sVariant : Nat := 0
  sConnect : String := ""
  sRecv : String := ""
  sAlive : String := ""
  sFrame : Option (Nat × Nat) := none
  streamFrames : Nat := 0

def splitBar (s : String) : Option (String × String) :=
  match s.splitOn " | " with
  | [a, b] => some (a.trimAscii.toString, b.trimAscii.toString)
  | _ => none

def kvN (ws : List String) (key : String) : Nat :=
  (((ws.find? (·.startsWith (key ++ "="))).map (fun w => (w.drop (key.length + 1)).toString)).bind (·.toNat?)).getD 0

/-- judge the byte stream a real `Connect::io` endpoint produced: a sequence of complete
length-prefixed frames, first `Reset`, then `Hello` of version 3 announcing the configured chunk size,
every further frame the canonical encoding of a v3 message, every `Data` header followed by exactly one
payload frame not longer than the chunk size the peer announced -/
def judgeStream (st : St) : List String × Nat :=
  -- no length limit here: the limit applies to what an endpoint *accepts*
  match splitFrames 4294967295 (st.sBytes.length + 1) st.sBytes [] with
  | .error _ => (["byte stream of the real endpoint is not length-prefix framed"], 0)
  | .ok (frames, rest) =>
    let errs : List String := if rest.isEmpty then [] else [s!"{rest.length} trailing bytes do not form a complete frame: {toHex (rest.take 12)}"]
    let errs := errs ++ (match frames with
      | f0 :: f1 :: _ =>
        (match decode f0 with
         | .ok .reset => []
         | _ => [s!"first frame is not Reset: {toHex f0}"]) ++
        (match decode f1 with
         | .ok (.hello v c) =>
           (if v == 3 then [] else [s!"Hello announces version {v}"]) ++
           (if c.chunk == st.sRealChunk then [] else [s!"Hello announces chunk size {c.chunk}, configured {st.sRealChunk}"]) ++
           (if encode (.hello v c) == f1 then [] else ["Hello is not canonically encoded"])
         | _ => [s!"second frame is not Hello: {toHex f1}"])
      | _ => ["fewer than two frames (no handshake)"])
    let rec walk : List (List UInt8) → Bool → List String → List String
      | [], _, acc => acc
      | f :: fs, true, acc =>
        walk fs false (if f.length ≤ st.sPeerChunk then acc else acc ++ [s!"data payload of {f.length} bytes exceeds the peer's chunk size {st.sPeerChunk}"])
      | f :: fs, false, acc =>
        match decode f with
        | .error _ => walk fs false (acc ++ [s!"frame rejected by the v3 spec decoder: {toHex f}"])
        | .ok m =>
          let acc := if encode m == f then acc else acc ++ [s!"frame is not the canonical v3 encoding of {msgToText m}: {toHex f}"]
          match m with
          | .data _ _ _ => walk fs true acc
          | _ => walk fs false acc
    (walk (frames.drop 2) false errs, frames.length)

def step (st : St) (n : Nat) (line : String) : IO St := do
  let l := line.trimAscii.toString
  if l.isEmpty || l.startsWith "#" then return st
  let bad (why : String) : IO St := do
    IO.println s!"DIFF line={n} {why} :: {l}"
    return { st with lines := st.lines + 1, diffs := st.diffs + 1 }
  let ok : IO St := return { st with lines := st.lines + 1 }
  -- ---- peer mode: lines of a `mux` trace
  match words l with
  | ["trace", name] =>
    return { st with trace := name, peerVersion := 3, started := false, payloadNext := false, apiIds := [], sBytes := [], sConnect := "", sRecv := "", sAlive := "", sFrame := none }
  | "scfg" :: ws => return { st with sRealChunk := kvN ws "realchunk", sPeerChunk := kvN ws "peerchunk", sVariant := kvN ws "variant" }
  | ["sbytes", hx] =>
    match parseHex hx with
    | some bs => return { st with sBytes := st.sBytes ++ bs, lines := st.lines + 1 }
    | none => bad "unparsable hex"
  | ["sjunk", hx] =>
    -- a frame sent before the peer's Reset/Hello that the handshake must ignore: it has to be undecodable by the spec
    match (if hx == "-" then some [] else parseHex hx) with
    | some bs =>
      match decode bs with
      | .error _ => return { st with lines := st.lines + 1 }
      | .ok _ => bad "the harness sent a decodable frame as junk"
    | none => bad "unparsable hex"
  | "sret" :: "connect" :: r :: _ => return { st with sConnect := r }
  | "sret" :: "recv" :: r => return { st with sRecv := " ".intercalate r }
  | ["sret", "alive", a] => return { st with sAlive := a }
  | "sret" :: _ => return st
  | "sframe" :: ws => return { st with sFrame := some (kvN ws "len", kvN ws "max") }
  | ["sdone"] =>
    let (errs, nframes) := judgeStream st
    -- the real endpoint accepted spec-framed input delivered in arbitrary pieces and the echoed value arrived
    let errs := errs ++ (if st.sConnect == "ok" then [] else [s!"Connect::io did not complete against a spec peer: {st.sConnect}"])
    let errs := errs ++ (if st.sRecv == "2712847316" then [] else [s!"the value echoed by the spec peer did not arrive: recv {st.sRecv}"])
    -- maximum frame length: `unframe (maxMsgLength + chunk)` accepts exactly the frames up to the limit
    let errs := errs ++ (match st.sFrame with
      | none => if st.sAlive == "1" then [] else [s!"connection not alive at the end of a fault-free exchange: alive={st.sAlive}"]
      | some (len, mx) =>
        let specOk := len ≤ maxMsgLength + st.sRealChunk
        (if mx == maxMsgLength + st.sRealChunk then [] else [s!"harness limit {mx} differs from the spec limit {maxMsgLength + st.sRealChunk}"]) ++
        (if specOk && st.sAlive != "1" then [s!"a frame of {len} bytes (limit {maxMsgLength + st.sRealChunk}) ended the connection"] else []) ++
        (if !specOk && st.sAlive == "1" then [s!"a frame of {len} bytes was accepted although the limit is {maxMsgLength + st.sRealChunk}"] else []))
    let mut st := { st with streamFrames := st.streamFrames + nframes, frames := st.frames + nframes, lines := st.lines + 1 }
    for e in errs do
      IO.println s!"DIFF line={n} {st.trace}: {e}"
      st := { st with diffs := st.diffs + 1 }
    return st
  | ["injected", _, "hello", v, _, _, _, _] => return { st with peerVersion := v.toNat?.getD 3 }
  | ["apiid", p, i] => return { st with apiIds := st.apiIds ++ [(p.toNat?.getD 0, i.toNat?.getD 0)] }
  | ["new", "B", "ok"] => return { st with started := true }
  | ["tx", "B", hx] =>
    if !st.started then return st else
    if st.payloadNext then return { st with payloadNext := false } else
    match parseHex hx with
    | none => bad "unparsable hex"
    | some bs =>
      match decode bs with
      | .error _ => bad s!"{st.trace}: the real endpoint emitted a frame the v3 spec decoder rejects"
      | .ok m =>
        let st := { st with frames := st.frames + 1, lines := st.lines + 1 }
        let idOf := fun (p : Nat) => ((st.apiIds.find? (·.1 == p)).map (·.2)).getD p
        -- the frame must be exactly the spec encoding of what it decodes to (no stray bytes)
        if encode m != bs then bad s!"{st.trace}: frame is not the canonical v3 encoding of {msgToText m}" else
        match m with
        | .data _ _ _ => return { st with payloadNext := true }
        | .openPort p w id =>
          let api := Msg.openPort p w (some (idOf p))
          if forPeer st.peerVersion api == m then return { st with idFrames := st.idFrames + 1 }
          else bad s!"{st.trace}: to a version {st.peerVersion} peer the spec sends {msgToText (forPeer st.peerVersion api)}, the real endpoint sent {msgToText m}"
        | .portData p f lst w ps ids =>
          let api := Msg.portData p f lst w ps (some (ps.map idOf))
          if forPeer st.peerVersion api == m then return { st with idFrames := st.idFrames + 1 }
          else
            let _ := ids
            bad s!"{st.trace}: to a version {st.peerVersion} peer the spec sends {msgToText (forPeer st.peerVersion api)}, the real endpoint sent {msgToText m}"
        | _ => return st
  | _ =>
  if (l.startsWith "op " || l.startsWith "opd " || l.startsWith "rx " || l.startsWith "tx " || l.startsWith "cfg " || l.startsWith "ret " ||
      l.startsWith "port " || l.startsWith "credits " || l.startsWith "settled " || l.startsWith "sent " || l.startsWith "end " ||
      l.startsWith "run " || l.startsWith "cancelled " || l.startsWith "injected " || l.startsWith "new " || l.startsWith "tasks " ||
      l.startsWith "alloc " || l.startsWith "listen " || l.startsWith "time " || l.startsWith "runtime " || l.startsWith "fault " ||
      l.startsWith "livelock " || l.startsWith "byte " || l.startsWith "item " || l.startsWith "panic") then return st else
  match splitBar l with
  | none => bad "malformed"
  | some (lhs, rhs) =>
    match words lhs with
    | "enc" :: ws =>
      match parseMsg ws, parseHex rhs with
      | some m, some bs =>
        if encode m == bs then ok else bad s!"enc spec={toHex (encode m)}"
      | _, _ => bad "unparsable"
    | ["dec", hx] =>
      match parseHex hx with
      | some bs =>
        let t := decodeToText bs
        if t == rhs then ok else bad s!"dec spec={t}"
      | none => bad "unparsable"
    | ["frm", hx] =>
      match parseHex hx, parseHex rhs with
      | some p, some f => if frame p == f then ok else bad s!"frm spec={toHex (frame p)}"
      | _, _ => bad "unparsable"
    | "peer" :: v :: ws =>
      match v.toNat?, parseMsg ws, parseMsg (words rhs) with
      | some v, some m, some onWire =>
        if forPeer v m == onWire then ok else bad s!"peer spec={msgToText (forPeer v m)}"
      | _, _, _ => bad "unparsable"
    | _ => bad "unknown-op"

def main : IO Unit := do
  let stdin ← IO.getStdin
  lineLoop stdin ({} : St) 1 step (fun st => IO.println s!"END lines={st.lines} diffs={st.diffs} frames={st.frames} idframes={st.idFrames}")
