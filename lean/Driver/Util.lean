/- Shared helpers for the line-protocol drivers (no Mathlib). -/
namespace Driver

def hexDigit (c : Char) : Option Nat :=
  if '0' ≤ c ∧ c ≤ '9' then some (c.toNat - '0'.toNat)
  else if 'a' ≤ c ∧ c ≤ 'f' then some (c.toNat - 'a'.toNat + 10)
  else if 'A' ≤ c ∧ c ≤ 'F' then some (c.toNat - 'A'.toNat + 10)
  else none

/-- parse a hex string ("-" = empty) into bytes -/
def parseHex (s : String) : Option (List UInt8) :=
  if s == "-" then some [] else
  let rec go : List Char → List UInt8 → Option (List UInt8)
    | [], acc => some acc.reverse
    | [_], _ => none
    | a :: b :: rest, acc =>
      match hexDigit a, hexDigit b with
      | some x, some y => go rest (UInt8.ofNat (16 * x + y) :: acc)
      | _, _ => none
  go s.toList []

def hexChar (n : Nat) : Char :=
  if n < 10 then Char.ofNat (n + '0'.toNat) else Char.ofNat (n - 10 + 'a'.toNat)

def toHex (bs : List UInt8) : String :=
  if bs.isEmpty then "-" else
  String.ofList (bs.foldr (fun b acc => hexChar (b.toNat / 16) :: hexChar (b.toNat % 16) :: acc) [])

def words (s : String) : List String :=
  (s.trimAscii.toString.splitOn " ").filter (· ≠ "")

/-- comma separated naturals, "-" = empty list -/
def parseNatList (s : String) : Option (List Nat) :=
  if s == "-" then some [] else
  (s.splitOn ",").mapM (·.toNat?)

def showNatList (l : List Nat) : String :=
  if l.isEmpty then "-" else ",".intercalate (l.map toString)

def parseBool (s : String) : Option Bool :=
  if s == "1" then some true else if s == "0" then some false else none

def showBool (b : Bool) : String := if b then "1" else "0"

/-- Run `step` over all stdin lines, threading a state; `fin` is called at EOF. -/
partial def lineLoop {σ : Type} (h : IO.FS.Stream) (st : σ) (lineNo : Nat)
    (step : σ → Nat → String → IO σ) (fin : σ → IO Unit) : IO Unit := do
  let line ← h.getLine
  if line.isEmpty then
    fin st
  else
    let st' ← step st lineNo line
    lineLoop h st' (lineNo + 1) step fin

end Driver
