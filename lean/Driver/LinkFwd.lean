import RemocModel.Link.Forward
import Driver.Util
/-
Forwarder part of the port-level driver (`Driver/Link.lean`): state kept per `Receiver::forward` call of a
script, and the predicates of `forward_chunks_exact`, `forward_eos_after_all`, `forward_close_classified`
(c11) and `forward_requests_paired` (c05) evaluated on the *real* frames and API results, independently of
the model replay.

Real observations used:
  upRx    frames of the source port delivered to the forwarding endpoint (`rx` lines), in order;
  downTx  frames the forwarding endpoint put on the wire for the destination port (`tx` lines), in order;
  upIds / downIds   ids carried by the PortData frames among them;
  close notifications for the destination port delivered to the forwarder, `ReceiveClose` it sent upstream;
  the result of `forward`.
-/
open Driver
open Remoc.Link

structure FwdSim where
  k : String
  /-- link keys (`<port name>><sending side>`) of the source and the destination port -/
  src : String
  dst : String
  /-- forwarding endpoint -/
  side : String
  /-- (source port number, destination port number) at the forwarding endpoint -/
  srcPort : Nat := 0
  dstPort : Nat := 0
  -- model state besides the two links
  ph : Phase := .idle
  closedSeen : Bool := false
  nAlloc : Nat := 0
  dropped : Bool := false
  -- monitors on the real trace
  upRx : List Frame := []
  downTx : List Frame := []
  /-- ids of the port batches completely delivered upstream / completely put on the wire downstream, and the
  batch being assembled (a data frame or a new `first` frame discards it, as the receiver does) -/
  upIds : List Nat := []
  downIds : List Nat := []
  upCur : Option (List Nat) := none
  downCur : Option (List Nat) := none
  /-- first close notification for the destination port delivered to the forwarder: (graceful, line) -/
  closeRx : Option (Bool × Nat) := none
  /-- line at which `ReceiveFinish` for the destination port (its receiver was dropped) was delivered to the forwarder -/
  finRx : Option Nat := none
  /-- line at which the forwarding endpoint put `ReceiveClose` for the source port on the wire -/
  closeTx : Option Nat := none
  /-- `forward` returned: line -/
  retLine : Option Nat := none
  /-- … with `Ok` -/
  retOk : Bool := false

def bytesPrefix : List Bytes → List Bytes → Bool
  | [], _ => true
  | _ :: _, [] => false
  | a :: as, b :: bs => a == b && bytesPrefix as bs

def natPrefix : List Nat → List Nat → Bool
  | [], _ => true
  | _ :: _, [] => false
  | a :: as, b :: bs => a == b && natPrefix as bs

/-- `forward_chunks_exact` (1) on real frames: the messages completed downstream are a prefix of the ideal
reassembly of the upstream frames delivered so far -/
def FwdSim.exactOk (f : FwdSim) : Bool := bytesPrefix (parse none f.downTx) (parse none f.upRx)

/-- `forward_chunks_exact` (2) on real frames: everything received was relayed -/
def FwdSim.allRelayed (f : FwdSim) : Bool := parse none f.downTx == parse none f.upRx

/-- the forwarder is between two messages as far as the real frames tell: nothing partial upstream, everything
complete relayed, no
partial transmission open downstream (a chunk may be waiting for credits), every received port batch sent on -/
def FwdSim.looksIdle (f : FwdSim) : Bool :=
  f.allRelayed && (parseSt none f.upRx).isNone && (parseSt none f.downTx).isNone && f.downIds == f.upIds

/-- reassembly of port batches: (batch being assembled, completed ids) after a PortData frame -/
def idsStep (cur : Option (List Nat)) (done : List Nat) (ids : List Nat) (first last : Bool) :
    Option (List Nat) × List Nat :=
  match (if first then some ids else cur.map (· ++ ids)) with
  | none => (none, done)
  | some b => if last then (none, done ++ b) else (some b, done)

def showMsgs (ms : List Bytes) : String := "[" ++ ",".intercalate (ms.map toHex) ++ "]"

/-- c05 bookkeeping for forwarded port requests -/
structure PairMon where
  /-- origin port number ↦ custom id (`apiid` lines) -/
  apiId : List (Nat × Nat) := []
  /-- handle name ↦ id of the half (origin connects `pc.i`, accepted requests) -/
  halfId : List (String × Nat) := []
  /-- request name ↦ id (`requests …` results at the destination) -/
  reqId : List (String × Nat) := []
  /-- id ↦ decision taken at the destination: none = accepted, some np = rejected(no_ports) -/
  decided : List (Nat × Option Bool) := []
  /-- payload (hex) ↦ (id, handle name) of the half it was sent into -/
  sentOn : List (String × Nat × String) := []
  /-- call id ↦ handle name, for receive calls on halves -/
  recvOn : List (String × String) := []

def lookupS {α} (m : List (String × α)) (k : String) : Option α := (m.find? (·.1 == k)).map (·.2)
def lookupN {α} (m : List (Nat × α)) (k : Nat) : Option α := (m.find? (·.1 == k)).map (·.2)
