import RemocModel.Watch.Model
import Driver.Util
/-
Driver for the C15 correspondence: reads the traces of `harness/src/bin/watch.rs` (real
`remoc::rch::watch`, local and across 1–3 real connections) and, per case,

 (i)  replays the case on M_watch.  Between two quiescence points no spawned task of the real system
      runs unless the harness awaits something; the driver runs the model's forwarding steps to
      quiescence exactly where the real system was quiescent (`settle`, before `changed`, a timed-out
      wait) and compares every value read, every `has_changed`/`changed`/`wait_for`/stream result and
      the `q` snapshot of all receivers with the model.  After an operation during which forwarding
      tasks made partial progress (`yield`, transfers, awaited `wait_for`/stream items) the state of
      cells other than the sender's own is not determined until the next quiescence point; in that
      window only operations on the sender's cell are compared exactly;
 (ii) evaluates the property predicate on what every receiver really observed: every value was sent
      (≤ last successful send), per receiver — across clone and transfer — observations never decrease,
      at every quiescence point every live receiver reads the last value sent, `wait_for` of a sent
      value completes, nothing hangs after the sender was dropped.

Output: `DIFF <case> line=<n> <what>`, `FAIL <case> line=<n> <what>`,
        `END <case> events=<n> replay=<ok|mismatch> pred=<ok|fail> obs=<n> racing=<n> transfers=<n> hops=<n> conns=<n>`.
-/
open Driver
open Remoc.Watch

structure RMon where
  alive : Bool := true
  stream : Bool := false
  streamFirst : Bool := false      -- the next stream item is the current value, returned immediately
  lastObs : Option Nat := none
  seenSync : Bool := true          -- the model's `seen` of this receiver corresponds to the real one
  deriving Inhabited

structure Sim where
  name : String := ""
  active : Bool := false
  conns : Nat := 0
  events : Nat := 0
  st : State := init
  uncertain : Bool := false
  n : Nat := 0
  senderAlive : Bool := true
  mons : Array RMon := #[{}]
  obs : Nat := 0
  racing : Nat := 0
  transfers : Nat := 0
  diffs : Nat := 0
  fails : Nat := 0
  total : Nat := 0
  totalDiff : Nat := 0
  totalFail : Nat := 0

def settleModel (s : State) : State := Id.run do
  let mut st := s
  for _ in [0:2 * s.cells.length + 2] do
    let before := st
    for c in [0:st.cells.length] do
      for l in [Label.fwdTake c, .fwdSend c, .store c, .fwdExit c, .storeEof c] do
        match step st l with
        | some st' => st := st'
        | none => pure ()
    if st == before then break
  return st

def diff (sim : Sim) (line : Nat) (what : String) : IO Sim := do
  IO.println s!"DIFF {sim.name} line={line} {what}"
  return { sim with diffs := sim.diffs + 1 }

def fail (sim : Sim) (line : Nat) (what : String) : IO Sim := do
  IO.println s!"FAIL {sim.name} line={line} {what}"
  return { sim with fails := sim.fails + 1 }

def rcvCell (sim : Sim) (r : Nat) : Option (Nat × Cell × Rcv) :=
  match sim.st.rcvs[r]? with
  | some rc => match sim.st.cells[rc.cell]? with
    | some cell => some (rc.cell, cell, rc)
    | none => none
  | none => none

def atRoot (sim : Sim) (r : Nat) : Bool :=
  match rcvCell sim r with
  | some (c, _, _) => c == sim.st.root
  | none => false

/-- may results of receiver `r` be compared exactly right now? -/
def exact (sim : Sim) (r : Nat) : Bool := !sim.uncertain || atRoot sim r

def setMon (sim : Sim) (r : Nat) (f : RMon → RMon) : Sim :=
  match sim.mons[r]? with
  | some m => { sim with mons := sim.mons.set! r (f m) }
  | none => sim

def stepModel (sim : Sim) (l : Label) : Sim :=
  match step sim.st l with
  | some st' => { sim with st := st' }
  | none => sim

def parseV (s : String) : Option Nat := if s.startsWith "v" then (s.drop 1).toNat? else none

/-- predicate side of a value observed by receiver `r` -/
def observePred (sim : Sim) (line : Nat) (r v : Nat) (how : String) : IO Sim := do
  let sim := { sim with obs := sim.obs + 1, racing := sim.racing + (if sim.uncertain && !atRoot sim r then 1 else 0) }
  let sim ← (if v > sim.n then fail sim line s!"receiver {r} {how}: observed value {v} was never sent (last sent {sim.n})" else pure sim)
  match sim.mons[r]? with
  | none => fail sim line s!"observation by unknown receiver {r}"
  | some m =>
    let sim ← (match m.lastObs with
      | some p => if v < p then fail sim line s!"receiver {r} {how}: older value after newer (observed {v} after {p})" else pure sim
      | none => pure sim)
    return setMon sim r (fun m => { m with lastObs := some (max v (m.lastObs.getD 0)) })

def cellVal (sim : Sim) (r : Nat) : Nat := match rcvCell sim r with | some (_, cell, _) => cell.val | none => 0

def hasUnseen (sim : Sim) (r : Nat) : Bool := match rcvCell sim r with | some (_, cell, rc) => cell.ver != rc.seen | none => false
def cellClosed (sim : Sim) (r : Nat) : Bool := match rcvCell sim r with | some (_, cell, _) => cell.closed | none => false

def maxHops (s : State) : Nat :=
  let rd := (s.cells[s.root]?.map (·.depth)).getD 0
  s.cells.foldl (fun acc c => max acc (c.depth - rd).toNat) 0

def finishCase (sim : Sim) (_line : Nat) : IO Sim := do
  let replay := if sim.diffs == 0 then "ok" else "mismatch"
  let pred := if sim.fails == 0 then "ok" else "fail"
  IO.println s!"END {sim.name} events={sim.events} replay={replay} pred={pred} obs={sim.obs} racing={sim.racing} transfers={sim.transfers} hops={maxHops sim.st} conns={sim.conns}"
  return { sim with active := false, total := sim.total + 1,
                    totalDiff := sim.totalDiff + (if sim.diffs == 0 then 0 else 1),
                    totalFail := sim.totalFail + (if sim.fails == 0 then 0 else 1) }

def stepLine (sim : Sim) (line : Nat) (raw : String) : IO Sim := do
  let l := raw.trimAscii.toString
  if l.isEmpty || l.startsWith "#" then return sim
  let (lhs, rhs) := match l.splitOn " -> " with
    | [a, b] => (words a, words b)
    | _ => (words l, [])
  match lhs with
  | "case" :: name :: cs :: _ =>
    let sim ← (if sim.active then finishCase sim line else pure sim)
    let conns := ((cs.splitOn "=").getD 1 "0").toNat?.getD 0
    return { sim with name := name, active := true, conns := conns, events := 0, st := init, uncertain := false, n := 0,
                      senderAlive := true, mons := #[{}], obs := 0, racing := 0, transfers := 0, diffs := 0, fails := 0 }
  | _ =>
  if !sim.active then return sim
  let sim := { sim with events := sim.events + 1 }
  let res := rhs.headD ""
  match lhs with
  | ["send", _] =>
    match rhs with
    | [v, r] =>
      if r == "ok" then
        let sim ← (if v.toNat? != some (sim.n + 1) then diff sim line s!"sent value {v}, expected {sim.n + 1}" else pure sim)
        match step sim.st .send with
        | some st' => return { sim with st := st', n := sim.n + 1 }
        | none => diff { sim with n := sim.n + 1 } line "send succeeded although the model's sender is gone"
      else
        let rootRcv := sim.st.rcvs.any (fun rc => rc.alive && rc.cell == sim.st.root)
        if rootRcv then diff sim line "send failed although a live receiver is attached to the sender's own cell" else return sim
    | _ => diff sim line "unparsable send"
  -- oversize cases (the receiving endpoint has a smaller item-size limit than the sender): an oversized update is a
  -- receive error for that update only; at quiescence the receiver still reads the last value sent
  | "ovsent" :: v :: _ => return { sim with n := v.toNat?.getD sim.n, obs := sim.obs + 1 }
  | "overr" :: rest => fail sim line s!"the receiver's channel ended although the sender is alive and the connection is up ({" ".intercalate rest}) after an oversized update"
  | ["ovread", v] =>
    if v.toNat? == some sim.n then return { sim with obs := sim.obs + 1 }
    else fail sim line s!"at quiescence the receiver reads value {v}, the last value sent is {sim.n} (an oversized update in between must not end the channel)"
  | "ovread" :: "err" :: rest =>
    fail sim line s!"at quiescence the receiver reads an error ({" ".intercalate rest}) although the last value sent ({sim.n}) fits its limit"
  | "panic" :: rest => fail sim line ("panic in the real code or harness: " ++ " ".intercalate rest)
  | "abort" :: _ =>
    -- the harness abandoned the case (a transfer of a channel half never completed): not judged
    IO.println s!"ABORT {sim.name} line={line}"
    return { sim with active := false }
  | "q" :: items =>
    let mut sim := sim
    for it in items do
      match it.splitOn "=" with
      | [rs, vs] =>
        match rs.toNat?, vs.toNat? with
        | some r, some v =>
          sim ← observePred sim line r v "at quiescence"
          if v != sim.n then
            sim ← fail sim line s!"receiver {r} reads {v} at quiescence, last value sent is {sim.n} (hops={maxHops sim.st})"
          if cellVal sim r != v then
            sim ← diff sim line s!"receiver {r} reads {v} at quiescence, model {cellVal sim r}"
          sim := stepModel sim (.observe r false)
        | _, _ => sim ← fail sim line s!"receive error at quiescence: {it}"
      | _ => sim ← diff sim line "unparsable q item"
    return sim
  | [op, rs] =>
    if op == "borrow" || op == "bau" then
      match rs.toNat?, parseV res with
      | some r, some v =>
        let upd := op == "bau"
        let ex := exact sim r
        let sim ← observePred sim line r v op
        let sim ← (if ex && cellVal sim r != v then diff sim line s!"{op} {r}: real v{v}, model v{cellVal sim r}" else pure sim)
        let sim := stepModel sim (.observe r upd)
        return if upd then setMon sim r (fun m => { m with seenSync := ex }) else sim
      | _, _ => fail sim line s!"{op}: receive error or unparsable: {l}"
    else if op == "haschanged" then
      match rs.toNat? with
      | some r =>
        let sync := (sim.mons[r]?.map (·.seenSync)).getD false
        if exact sim r && sync then
          let exp := if cellClosed sim r then "closed" else if hasUnseen sim r then "1" else "0"
          if exp != res then diff sim line s!"has_changed {r}: real {res}, model {exp}" else return sim
        else return sim
      | none => diff sim line "unparsable haschanged"
    else if op == "changed" then
      match rs.toNat? with
      | some r =>
        -- the harness settled before calling `changed()`
        let sim := { sim with st := settleModel sim.st, uncertain := false }
        let sync := (sim.mons[r]?.map (·.seenSync)).getD false
        let exp := if hasUnseen sim r then "ok" else if cellClosed sim r then "closed" else "pending"
        let sim ← (if sync && exp != res then diff sim line s!"changed {r}: real {res}, model {exp}" else pure sim)
        let sim ← (if res == "pending" && !sim.senderAlive then
            fail sim line s!"receiver {r}: changed() hangs although the sender was dropped" else pure sim)
        -- quiescent: whatever the result, the receiver has now seen the current version (or the cell is closed)
        if res == "ok" || res == "pending" then
          return setMon (stepModel sim (.changedOk r)) r (fun m => { m with seenSync := true })
        else return sim
      | none => diff sim line "unparsable changed"
    else if op == "next" then
      match rs.toNat? with
      | some r =>
        let m := sim.mons[r]?.getD {}
        let ex := exact sim r
        if m.streamFirst then
          -- first item of the stream wrapper: the current value, no waiting
          match parseV res with
          | some v =>
            let sim ← observePred sim line r v "stream"
            let sim ← (if ex && cellVal sim r != v then diff sim line s!"first stream item {r}: real v{v}, model v{cellVal sim r}" else pure sim)
            return setMon (stepModel sim (.observe r true)) r (fun m => { m with streamFirst := false, seenSync := ex })
          | none => fail sim line s!"receiver {r}: first stream item is not the current value: {res}"
        else
          -- `changed().await` then `borrow_and_update()`
          let pre := cellVal sim r
          -- did the call return without waiting?  With a synchronised `seen` the model knows; otherwise
          -- (quiescent state, cells in sync) a returned value equal to the current one means "immediately"
          let immediate := ex && (if m.seenSync then hasUnseen sim r else parseV res == some pre)
          let sim := if ex && !immediate then { sim with st := settleModel sim.st } else sim
          let exp := if immediate then s!"v{pre}" else if hasUnseen sim r then s!"v{cellVal sim r}"
                     else if cellClosed sim r then "closed" else "pending"
          let sim ← (if ex && (m.seenSync || (parseV res).isSome) && exp != res then
              diff sim line s!"stream item {r}: real {res}, model {exp}" else pure sim)
          match parseV res with
          | some v =>
            let sim ← observePred sim line r v "stream"
            let sim := stepModel (stepModel sim (.changedOk r)) (.observe r true)
            let sim := setMon sim r (fun m => { m with seenSync := ex })
            return if immediate then sim else { sim with uncertain := true }
          | none =>
            if res == "pending" then
              let sim ← (if !sim.senderAlive then fail sim line s!"receiver {r}: stream hangs although the sender was dropped" else pure sim)
              -- the timeout fired: the real system is quiescent and the receiver has seen the current version
              let sim := { sim with st := settleModel sim.st, uncertain := false }
              return setMon (stepModel sim (.changedOk r)) r (fun m => { m with seenSync := true })
            else if res == "closed" then
              let sim ← (if sim.senderAlive then fail sim line s!"receiver {r}: stream ended although the sender exists" else pure sim)
              return if immediate then sim else { sim with uncertain := true }
            else fail sim line s!"receiver {r}: stream error"
      | none => diff sim line "unparsable next"
    else if op == "tostream" then
      match rs.toNat? with
      | some r => return setMon sim r (fun m => { m with stream := true, streamFirst := true })
      | none => diff sim line "unparsable tostream"
    else if op == "clone" then
      match rs.toNat?, res.toNat? with
      | some r, some r' =>
        let sim ← (if r' != sim.mons.size then diff sim line "receiver ids out of sequence" else pure sim)
        let m := sim.mons[r]?.getD {}
        let sim := { sim with mons := sim.mons.push m }
        match step sim.st (.clone r) with
        | some st' => return { sim with st := st' }
        | none => diff sim line "model does not allow clone here"
      | _, _ => diff sim line "unparsable clone"
    else if op == "xfersender" then
      match step sim.st .transferSender with
      | some st' => return { sim with st := st', uncertain := true, transfers := sim.transfers + 1 }
      | none => diff sim line "model does not allow transferSender here"
    else if op == "droprcv" then
      match rs.toNat? with
      | some r => return setMon (stepModel sim (.dropRcv r)) r (fun m => { m with alive := false })
      | none => diff sim line "unparsable droprcv"
    else diff sim line s!"unknown line: {l}"
  | ["waitfor", rs, ks] =>
    match rs.toNat?, ks.toNat? with
    | some r, some k =>
      let ex := exact sim r
      match parseV res with
      | some v =>
        let sim ← observePred sim line r v "wait_for"
        let sim ← (if v < k then fail sim line s!"receiver {r}: wait_for(>= {k}) returned {v}" else pure sim)
        let immediate := ex && cellVal sim r ≥ k
        let sim := if ex && !immediate then { sim with st := settleModel sim.st } else sim
        let sim ← (if ex && cellVal sim r != v then diff sim line s!"wait_for {r}: real v{v}, model v{cellVal sim r}" else pure sim)
        let sim := setMon (stepModel sim (.observe r true)) r (fun m => { m with seenSync := ex })
        return if immediate then sim else { sim with uncertain := true }
      | none =>
        -- k ≤ last value sent, so the awaited value exists: not getting it is a convergence failure
        fail { sim with st := settleModel sim.st, uncertain := res != "pending" } line
          s!"receiver {r}: wait_for(>= {k}) ended with {res} although value {sim.n} was sent"
    | _, _ => diff sim line "unparsable waitfor"
  | ["transfer", rs, _] =>
    match rs.toNat? with
    | some r =>
      -- the snapshot is taken synchronously at the start of the transfer: it equals the model's only if the
      -- source cell is in sync with the real one
      let ex := exact sim r
      match step sim.st (.transfer r) with
      | some st' => return setMon { sim with st := st', uncertain := true, transfers := sim.transfers + 1 } r (fun m => { m with seenSync := ex })
      | none => diff sim line "model does not allow transfer here"
    | none => diff sim line "unparsable transfer"
  | ["subscribe"] =>
    let sim ← (if res.toNat? != some sim.mons.size then diff sim line "receiver ids out of sequence" else pure sim)
    let sim := { sim with mons := sim.mons.push {} }
    match step sim.st .subscribe with
    | some st' => return { sim with st := st' }
    | none => diff sim line "model does not allow subscribe here"
  | ["dropsender"] =>
    match step sim.st .dropSender with
    | some st' => return { sim with st := st', senderAlive := false }
    | none => diff { sim with senderAlive := false } line "model does not allow dropSender here"
  | ["yield"] => return { sim with uncertain := true }
  | ["settle"] => return { sim with st := settleModel sim.st, uncertain := false }
  | ["end"] => finishCase sim line
  | _ => diff sim line s!"unknown line: {l}"

def main : IO Unit := do
  let stdin ← IO.getStdin
  lineLoop stdin ({} : Sim) 1 stepLine (fun sim => do
    let sim ← (if sim.active then finishCase sim 0 else pure sim)
    IO.println s!"TOTAL cases={sim.total} replay_mismatch={sim.totalDiff} pred_fail={sim.totalFail}")
