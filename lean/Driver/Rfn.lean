import RemocModel.Rtc.Rfn
import Driver.Util
/-
Driver for the remote-function correspondence (C12, C19): reads the traces of the `rfn` harness
(real `remoc::rfn::{RFn, RFnMut, RFnOnce}` wrappers, see harness/src/rfnworld.rs) and, per case,

 (i)  in exact mode (one stimulus per quiescent point) *replays* the trace on M_rfn
      (`Remoc.Rfn.step`): after every stimulus and before every observed event the invisible
      internal labels (request hand-over, dequeue, semaphore permit, close notification, result
      transmission, purge, provider end) are run eagerly in the order of the real pipelines; every
      observed event (segment executed, execution finished / dropped, call returned) must then be an
      enabled label with the same output, and at every `settled` marker the model must have no
      observable label enabled, the same set of pending calls, the same counter value, the same
      number of executions in progress and the same provider-task status;
 (ii) evaluates the property predicates directly on the real history, independently of the model:
        c12  every call completes (no call pending at the final quiescent point, except behind an
             abandoned execution: c19), own reply (tag and execution nonce in arguments and
             results), at most once per call
             (one execution per request, segments in order, value outcome ⇒ one complete execution
             with the arguments passed), `RFnMut` executions never overlap and run in the order of
             the closure's own invocation counter, every update of the shared counter is accounted
             for (no lost update, results chain sequentially for `RFnMut`), `RFnOnce` executes at
             most once in total, `RFn` never exceeds `max_concurrency`;
        c19  no call hangs (pending at the final quiescent point), an execution takes no step after
             the quiescent point following the drop of its caller / the loss of its connection,
             every call that has no reason of its own to fail returns a value (the provider
             survives abandoned and failing calls).

Argument `fixed`: replay against the variant `cancel = true` (the documented cancellation).
Output: `DIFF <case> line=<n> <what>`, `FAIL <case> <c12|c19> line=<n> <what>`,
`END <case> events=<n> accept=<ok|mismatch|skipped> c12=<ok|FAIL> c19=<ok|FAIL> calls=<n> …`.
-/
open Driver
open Remoc.Rfn

def kvGet (ws : List String) (key : String) : Option String :=
  ws.findSome? (fun w => if w.startsWith (key ++ "=") then some ((w.drop (key.length + 1)).toString) else none)

def kvNat (ws : List String) (key : String) : Option Nat := (kvGet ws key).bind (·.toNat?)

def two64 : Nat := 18446744073709551616

/-! ### the function of the harness as a `Fun` -/

/-- argument encoding: ((by * 16 + suspension points) * 4 + argument kind) * 4 + result kind;
kinds: 0 fine, 1 cannot be serialised (or over-size), 2 cannot be deserialised -/
def encArg (by_ nsusp argK resK : Nat) : Nat := ((by_ * 16 + nsusp) * 4 + argK) * 4 + resK

/-- every segment adds `by` to the shared counter (relative to the initial value of the case);
the result carries the counter before the first and after the last segment -/
def hFun : Fun where
  σ := Nat
  Loc := Nat × Nat
  σ0 := 0
  nseg := fun a => (a / 16) % 16
  init := fun _ => (0, 0)
  seg := fun a k x =>
    let s' := (x.2 + a / 256) % two64
    ((if k == 0 then x.2 else x.1.1, s'), s')
  ret := fun _ l => l.1 * two64 + l.2
  reqFits := fun a => (a / 4) % 4 != 1
  decodable := fun a => (a / 4) % 4 != 2
  fits := fun a _ => a % 4 == 0

abbrev MSt := State hFun

/-- the model's counter as a number -/
def ctr (st : MSt) : Nat := st.σ

def kindCode (s : String) : Nat :=
  match s with
  | "unser" => 1 | "big" => 1 | "undeser" => 2 | _ => 0

/-! ### simulation state -/

structure Exec where
  x : Nat
  seq : Nat
  startT : Nat
  segs : List (Nat × Nat) := []    -- (k, v) in order
  fin : Option (Nat × Nat) := none
  dropped : Option Nat := none
  endT : Option Nat := none

structure CallInfo where
  tag : Nat
  nseg : Nat := 1
  gated : Bool := true
  by_ : Nat := 0
  argK : Nat := 0
  resK : Nat := 0
  mid : Option Nat := none           -- model call id (set at `ev inv`)
  permits : Nat := 0                 -- gates opened and not yet passed (model side)
  -- real history
  invT : Option Nat := none
  retT : Option Nat := none
  value : Option (Nat × Nat × Nat) := none   -- x, v1, v2
  err : Option String := none
  abandonT : Option Nat := none
  abandonSettled : Bool := false     -- a `settled` marker was seen after the abandon
  execs : List Exec := []
  -- reasons to fail that existed when the call was made / while it was pending
  provDropped : Bool := false
  killed : Bool := false
  poisoned : Bool := false
  handleGone : Bool := false

structure Sim where
  name : String := ""
  events : Nat := 0
  out : List String := []
  acceptOk : Bool := true
  accepting : Bool := false          -- exact mode: the acceptor runs
  c12 : Bool := true
  c19 : Bool := true
  diffs : Nat := 0
  -- configuration
  fl : String := "const"
  remote : Bool := true
  keep : Bool := false
  limit : Nat := 32
  init : Nat := 0
  cancelVariant : Bool := false
  cfg : Cfg := { fl := .const, cancel := false, remote := true, cap := 1000, limit := 32 }
  st : MSt := Remoc.Rfn.init hFun
  calls : List CallInfo := []
  handles : List Bool := [true]      -- alive?
  onceUsed : Bool := false
  -- real monitors
  active : List Nat := []            -- tags of executions in progress
  lastV : Option Nat := none         -- counter according to the last segment event
  lastSeq : Nat := 0
  nexecs : Nat := 0
  usedX : List (Nat × Nat) := []
  provDropped : Bool := false
  killed : Bool := false
  killSettled : Bool := false
  poisoned : Bool := false
  ended : Bool := false
  callersDropped : Bool := false
  endDropped : Bool := false
  cleanup : Bool := false
  fuzzy : Bool := false              -- acceptor suspended
  stats : List (String × Nat) := []

namespace Sim

def diff (s : Sim) (line : Nat) (what : String) : Sim :=
  if !s.accepting || s.fuzzy then s else
  if s.diffs ≥ 3 then { s with acceptOk := false, diffs := s.diffs + 1 } else
  { s with acceptOk := false, diffs := s.diffs + 1, out := s.out ++ [s!"DIFF {s.name} line={line} {what}"] }

def fail (s : Sim) (prop : String) (line : Nat) (what : String) : Sim :=
  let s := if prop == "c12" then { s with c12 := false } else { s with c19 := false }
  if (s.out.filter (·.startsWith "FAIL")).length ≥ 6 then s else
  { s with out := s.out ++ [s!"FAIL {s.name} {prop} line={line} rfn {s.fl} {what}"] }

def bump (s : Sim) (k : String) : Sim :=
  if s.stats.any (·.1 == k) then { s with stats := s.stats.map (fun p => if p.1 == k then (k, p.2 + 1) else p) }
  else { s with stats := s.stats ++ [(k, 1)] }

def getCall (s : Sim) (tag : Nat) : Option CallInfo := s.calls.find? (·.tag == tag)

def modCall (s : Sim) (tag : Nat) (f : CallInfo → CallInfo) : Sim :=
  { s with calls := s.calls.map (fun x => if x.tag == tag then f x else x) }

def tagOfMid (s : Sim) (mid : Nat) : String :=
  match s.calls.find? (·.mid == some mid) with
  | some c => toString c.tag
  | none => s!"?{mid}"

end Sim

/-! ### the acceptor -/

/-- run every invisible label to quiescence (eager); requests enter the queue in issue order,
permits are granted in dequeue order -/
partial def closure (cfg : Cfg) (st : MSt) (lazy : List Nat) (fuel : Nat) : MSt :=
  if fuel == 0 then st else
  let ids := List.range st.n
  let cands := (ids.filter (fun c => !lazy.contains c)).map Label.sendFail ++ ids.map Label.enqueue ++ [Label.dequeue] ++ ids.map Label.permit
      ++ ids.map Label.closeSeen
      -- (cancel variant) an execution cancelled before its first poll leaves no trace in the log
      ++ (ids.filter (fun c => st.pc c == 0)).map Label.execCancel
      ++ ids.map Label.deliver ++ ids.map Label.purge ++ [Label.provTerm, Label.serveEnd]
  let rec tryCands : List Label → Option MSt
    | [] => none
    | l :: ls =>
      match step cfg st l with
      | some st' => some st'
      | none => tryCands ls
  match tryCands cands with
  | some st' => closure cfg st' lazy (fuel - 1)
  | none => st

namespace Sim

/-- A request the provider cannot deserialise fails when the provider's receiving task gets to it,
which depends on how far the requests before it have been taken (depth of the receive pipeline):
the moment is not determined by the model; its `sendFail` is taken when the error is observed. -/
def lazyFail (s : Sim) : List Nat :=
  s.calls.filterMap (fun c => if s.remote && c.argK == 2 then c.mid else none)

def close (s : Sim) : Sim := { s with st := closure s.cfg s.st s.lazyFail 4000 }

/-- take a model label that must be enabled -/
def take (s : Sim) (line : Nat) (l : Label) (what : String) (ok : MSt → Bool := fun _ => true) : Sim :=
  if !s.accepting || s.fuzzy then s else
  match step s.cfg s.st l with
  | some st' => if ok st' then { s with st := st' } else s.diff line s!"{what}: the model's output differs"
  | none => s.diff line s!"{what}: not enabled in the model"

/-- an environment label; if it is not enabled in the model nothing happens there either -/
def env (s : Sim) (l : Label) : Sim :=
  if !s.accepting || s.fuzzy then s else
  match step s.cfg s.st l with
  | some st' => { s with st := st' }
  | none => s

def showCl : Cl → String
  | .waiting => "waiting" | .value r => s!"value({r / two64},{r % two64})" | .error => "error" | .abandoned => "abandoned"

/-- may the model run a segment of this call now?  Segment 0 runs at the first poll; every further
segment of a gated call needs an opened gate -/
def segAllowed (s : Sim) (c : CallInfo) (mid : Nat) : Bool :=
  s.st.pc mid == 0 || !c.gated || c.permits > 0

end Sim

/-! ### processing a trace -/

def parseCall (ws : List String) : Option CallInfo := do
  let tag ← (ws[2]?).bind (·.toNat?)
  some { tag := tag, nseg := Nat.max 1 ((kvNat ws "nseg").getD 1), gated := (kvNat ws "gated").getD 1 == 1,
         by_ := (kvNat ws "by").getD 0, argK := kindCode ((kvGet ws "arg").getD "ok"),
         resK := kindCode ((kvGet ws "res").getD "ok") }

def flOf (s : String) : Flavour :=
  match s with
  | "mut" => .mut | "once" => .once | _ => .const

def startCase (ws : List String) (cancelVariant : Bool) : Sim :=
  let fl := (kvGet ws "fl").getD "const"
  let remote := (kvNat ws "remote").getD 1 == 1
  let limit := (kvNat ws "limit").getD 32
  let exact := (kvNat ws "exact").getD 0 == 1
  { name := ws[1]?.getD "?", fl := fl, remote := remote, keep := (kvNat ws "keep").getD 0 == 1, limit := limit,
    init := (kvNat ws "init").getD 0, cancelVariant := cancelVariant, accepting := exact,
    -- transported wrapper: requests pile up in the buffers of the connection (practically
    -- unbounded for these small requests); local wrapper: the tokio channel of capacity 1
    cfg := { fl := flOf fl, cancel := cancelVariant, remote := remote, cap := if remote then 1000 else 1, limit := limit } }

/-- the reasons a call may legitimately fail for, as far as the harness knows them -/
def hasCause (s : Sim) (c : CallInfo) : Bool :=
  c.provDropped || c.killed || c.poisoned || c.handleGone || c.argK != 0 || c.resK != 0
    || (s.fl == "once" && s.calls.any (fun o => o.tag != c.tag && o.invT.isSome))

def handlesAlive (s : Sim) : Bool := s.handles.any id

/-- every handle is gone: the script dropped them all and no call task still owns its clone (a
pending call borrows its handle) -/
def maybeDropCallers (s : Sim) : Sim :=
  if s.callersDropped || handlesAlive s then s else
  if s.calls.all (fun c => c.invT.isNone || c.retT.isSome) then
    ({ s with callersDropped := true }.env .dropCallers).bump "all_handles_dropped"
  else s

/-- mark the pending calls with a reason to fail that has just come into existence -/
def markPending (s : Sim) (f : CallInfo → CallInfo) : Sim :=
  { s with calls := s.calls.map (fun c => if c.retT.isNone then f c else c) }

def onOp (s : Sim) (line : Nat) (ws : List String) : Sim :=
  match ws[1]? with
  | some "call" =>
    match parseCall ws with
    | some c =>
      let c := { c with provDropped := s.provDropped, killed := s.killed && s.remote, poisoned := s.poisoned }
      ({ s with calls := s.calls ++ [c] }).bump "calls"
    | none => s
  | some "step" =>
    match (ws[2]?).bind (·.toNat?) with
    | some tag => s.modCall tag (fun c => { c with permits := c.permits + 1 })
    | none => s
  | some "clone" =>
    match (ws[2]?).bind (·.toNat?) with
    | some i => { s with handles := s.handles ++ [s.handles.getD i false] }
    | none => s
  | some "drophandle" =>
    match (ws[2]?).bind (·.toNat?) with
    | some i =>
      maybeDropCallers { s with handles := s.handles.set i false }
    | none => s
  | some "dropprov" =>
    if s.keep || s.provDropped then s else
    let s := markPending { s with provDropped := true } (fun c => { c with provDropped := true })
    (s.env .dropProvider).bump "provider_drops"
  | some "kill" =>
    if !s.remote || s.killed then s else
    let s := markPending { s with killed := true } (fun c => { c with killed := true })
    -- requests still on their way when the connection goes: which of them the provider still gets
    -- is not determined by what the harness observes
    let inflight := (List.range s.st.n).any (fun c => s.st.stage c == .sending)
    let s := if inflight then { s with fuzzy := true } else s
    (s.env .connLoss).bump "kills"
  | some "end" => { s with ended := true }
  | _ => s

def findExec (c : CallInfo) (x : Nat) : Option Exec := c.execs.find? (·.x == x)

def modExec (s : Sim) (tag x : Nat) (f : Exec → Exec) : Sim :=
  s.modCall tag (fun c => { c with execs := c.execs.map (fun e => if e.x == x then f e else e) })

/-- an execution event after the quiescent point that followed the departure of its caller -/
def lateCheck (s : Sim) (line : Nat) (c : CallInfo) (what : String) : Sim :=
  if s.cleanup then s else
  if c.abandonSettled then
    (s.fail "c19" line s!"execution-{what}-after-caller-dropped (call {c.tag}: the call future was dropped, a quiescent point passed, the function still runs)").bump "late_exec_events"
  else if s.remote && s.killSettled && c.invT.isSome then
    (s.fail "c19" line s!"execution-{what}-after-caller-lost (call {c.tag}: the connection is gone, a quiescent point passed, the function still runs)").bump "late_exec_events"
  else s

def onEv1 (s : Sim) (line : Nat) (ws : List String) : Sim :=
  let tag := ((ws[2]?).bind (·.toNat?)).getD 0
  match ws[1]? with
  | some "inv" =>
    let mid := s.st.n
    let s := s.modCall tag (fun c => { c with invT := some line, mid := some mid,
                                              poisoned := c.poisoned || s.poisoned, provDropped := c.provDropped || s.provDropped,
                                              killed := c.killed || (s.killed && s.remote) })
    match s.getCall tag with
    | some c =>
      let s := if c.argK == 1 && s.remote && !s.provDropped && !s.killed then { s with poisoned := true } else s
      let s := if s.fl == "once" then { s with onceUsed := true } else s
      let s := s.env (.issue (encArg c.by_ (c.nseg - 1) c.argK c.resK))
      -- `RFnOnce::call(self)` consumes the handle
      if s.fl == "once" then s.env .dropCallers else s
    | none => s
  | some "noclient" => s.modCall tag (fun c => { c with handleGone := true, retT := some line })
  | some "abandon" =>
    let s := s.bump "abandons"
    match s.getCall tag with
    | some c =>
      let s := s.modCall tag (fun c => { c with abandonT := some line, retT := c.retT.orElse (fun _ => some line) })
      match c.mid with
      | some mid =>
        let s := s.close
        let stageName := match s.st.stage mid with
          | .sending => "sending" | .queued => "queued" | .spawned => "waiting_for_permit" | .executing => "executing"
          | .replying _ => "replying" | .done => "done"
        let s := if s.accepting && !s.fuzzy && c.retT.isNone then s.bump ("abandon_at_" ++ stageName) else s
        if s.st.stage mid == .sending then s.env (.abandonEarly mid) else s.env (.abandon mid)
      | none => s
    | none => s
  | some "abandon-late" => s
  | some "start" =>
    let x := (kvNat ws "x").getD 0
    let seq := (kvNat ws "seq").getD 0
    let s := s.bump "executions"
    match s.getCall tag with
    | none => s.fail "c12" line s!"execution-without-call (tag {tag})"
    | some c =>
      let s := if c.invT.isNone then s.fail "c12" line s!"execution-without-call (call {tag} was never made)" else s
      let s := if !c.execs.isEmpty then s.fail "c12" line s!"executed-twice (call {tag})" else s
      let s := if s.usedX.any (·.1 == x) then s.fail "c12" line s!"execution-nonce-reused" else s
      let s := if (kvNat ws "nseg").getD 0 != c.nseg || (kvNat ws "by").getD 0 != c.by_ then
          s.fail "c12" line s!"wrong-arguments (call {tag} sent nseg={c.nseg} by={c.by_})" else s
      let s := if s.fl != "const" && !s.active.isEmpty then
          s.fail "c12" line s!"overlapping-executions (call {tag} starts while {s.active} executes)" else s
      -- (strictly increasing; a gap is an invocation whose caller was gone before its first poll: since the repair
      -- of F-RFN-1 the provider drops such a future without ever polling it)
      let s := if s.fl == "mut" && seq ≤ s.lastSeq then
          s.fail "c12" line s!"closure-invocation-order (seq {seq} after {s.lastSeq})" else s
      let s := if s.fl == "once" && s.nexecs ≥ 1 then s.fail "c12" line s!"once-executed-again (call {tag})" else s
      let s := if s.fl == "const" && s.active.length + 1 > s.limit then
          s.fail "c12" line s!"limit-exceeded ({s.active.length + 1} executions, max_concurrency {s.limit})" else s
      let s := lateCheck s line c "started"
      let s := { s with active := s.active ++ [tag], usedX := s.usedX ++ [(x, tag)], lastSeq := seq, nexecs := s.nexecs + 1 }
      s.modCall tag (fun c => { c with execs := c.execs ++ [{ x := x, seq := seq, startT := line }] })
  | some "seg" =>
    let x := (kvNat ws "x").getD 0
    let k := (kvNat ws "k").getD 0
    let v := (kvNat ws "v").getD 0
    match s.getCall tag with
    | none => s.fail "c12" line s!"execution-without-call (tag {tag})"
    | some c =>
      match findExec c x with
      | none => s.fail "c12" line s!"segment-of-unknown-execution (call {tag} x={x})"
      | some e =>
        let s := if e.segs.length != k || e.endT.isSome then s.fail "c12" line s!"segment-order (call {tag} k={k} after {e.segs.length} segments)" else s
        -- every update of the shared counter is accounted for
        let prev := s.lastV.getD s.init
        let s := if v != (prev + c.by_) % two64 then
            s.fail "c12" line s!"counter-inconsistent (call {tag} k={k}: {prev} + {c.by_} ≠ {v})" else s
        let s := if s.fl != "const" && s.active != [tag] then
            s.fail "c12" line s!"overlapping-executions (segment of call {tag} while {s.active} executes)" else s
        let s := if k > 0 then lateCheck s line c "continued" else s
        let s := modExec { s with lastV := some v } tag x (fun e => { e with segs := e.segs ++ [(k, v)] })
        -- replay
        match c.mid with
        | some mid =>
          let s := s.close
          let s := if s.accepting && !s.fuzzy && !(s.st.stage mid == .executing && s.st.pc mid == k) then
              s.diff line s!"segment {k} of call {tag}: the model has it at stage {repr (s.st.stage mid)} pc {s.st.pc mid}" else s
          let s := if k > 0 && c.gated then s.modCall tag (fun c => { c with permits := c.permits - 1 }) else s
          s.take line (.execStep mid) s!"segment {k} of call {tag}" (fun st' => (ctr st' + s.init) % two64 == v)
        | none => s
  | some "fin" =>
    let x := (kvNat ws "x").getD 0
    let v1 := (kvNat ws "v1").getD 0
    let v2 := (kvNat ws "v2").getD 0
    match s.getCall tag with
    | none => s
    | some c =>
      match findExec c x with
      | none => s.fail "c12" line s!"finish-of-unknown-execution (call {tag} x={x})"
      | some e =>
        let s := if e.segs.length != c.nseg then s.fail "c12" line s!"incomplete-execution-finished (call {tag}: {e.segs.length} of {c.nseg} segments)" else s
        let s := if s.fl != "const" && v2 != (v1 + c.nseg * c.by_) % two64 then
            s.fail "c12" line s!"not-atomic (call {tag}: {v1} + {c.nseg}*{c.by_} ≠ {v2})" else s
        let s := { s with active := s.active.filter (· != tag) }
        let s := modExec s tag x (fun e => { e with fin := some (v1, v2), endT := some line })
        -- replay: the model finished with the same result
        match c.mid with
        | some mid =>
          if s.accepting && !s.fuzzy then
            let want := ((v1 + two64 - s.init % two64) % two64) * two64 + ((v2 + two64 - s.init % two64) % two64)
            match s.st.tr.getLast? with
            | some (.fin m _ r) =>
              if m == mid && r == want then s else s.diff line s!"finish of call {tag}: the model's execution returned ({r / two64},{r % two64}) relative to the initial value"
            | _ => s.diff line s!"finish of call {tag}: the model's execution has not finished"
          else s
        | none => s
  | some "drop" =>
    let x := (kvNat ws "x").getD 0
    let k := (kvNat ws "k").getD 0
    if s.cleanup then s else
    let s := s.bump "dropped_executions"
    let s := { s with active := s.active.filter (· != tag) }
    let s := modExec s tag x (fun e => { e with dropped := some k, endT := some line })
    match (s.getCall tag).bind (·.mid) with
    | some mid =>
      let s := s.close
      s.take line (.execCancel mid) s!"execution of call {tag} dropped after {k} segments" (fun _ => s.st.pc mid == k)
    | none => s
  | some "ret" =>
    match s.getCall tag with
    | none => s
    | some c =>
      let s := s.modCall tag (fun c => { c with retT := some line })
      if ws[3]? == some "ok" then
        let x := (kvNat ws "x").getD 0
        let v1 := (kvNat ws "v1").getD 0
        let v2 := (kvNat ws "v2").getD 0
        let s := s.bump "values"
        let s := s.modCall tag (fun c => { c with value := some (x, v1, v2) })
        let s := if (kvNat ws "tag").getD 0 != tag then
            s.fail "c12" line s!"reply-of-another-call (call {tag} got the reply of call {(kvNat ws "tag").getD 0})" else s
        let s := match findExec c x with
          | none => s.fail "c12" line s!"reply-without-own-execution (call {tag} x={x})"
          | some e =>
            if e.fin != some (v1, v2) then s.fail "c12" line s!"reply-differs-from-execution (call {tag})"
            else if e.segs.length != c.nseg then s.fail "c12" line s!"value-without-complete-execution (call {tag})"
            else s
        match c.mid with
        | some mid =>
          let s := s.close
          let want := ((v1 + two64 - s.init % two64) % two64) * two64 + ((v2 + two64 - s.init % two64) % two64)
          s.take line (.recvReply mid) s!"call {tag} returns a value" (fun st' => st'.cl mid == .value want)
        | none => s
      else
        let cls := ws[4]?.getD "?"
        let s := (s.bump "errors").bump ("error_" ++ cls)
        let s := s.modCall tag (fun c => { c with err := some cls })
        let c := (s.getCall tag).getD c
        let s := if !hasCause s c then
            s.fail "c19" line s!"call-failed-without-cause (call {tag}: {cls}; provider alive, handle alive, connection up, argument and result transmittable)" else s
        match c.mid with
        | some mid =>
          let s := s.close
          let s := if s.st.stage mid == .sending then s.env (.sendFail mid) else s
          s.take line (.recvReply mid) s!"call {tag} returns an error" (fun st' => st'.cl mid == .error)
        | none => s
  | some "hang" =>
    match s.getCall tag with
    | none => s
    | some c =>
      -- is the call stuck behind an execution whose caller has gone (finding F-RFN-1)?
      let abandonedActive := s.active.any (fun t => match s.getCall t with
        | some o => o.abandonT.isSome || (s.remote && s.killed)
        | none => false)
      let cause := if abandonedActive && c.execs.isEmpty then "blocked-behind-abandoned-execution" else "none"
      let s := (s.fail "c19" line s!"call-hangs cause={cause} (call {tag} is still pending at the final quiescent point)").bump "hangs"
      -- "every remote function call completes with exactly one outcome"
      if cause == "none" then s.fail "c12" line s!"call-never-completes (call {tag} is still pending at the final quiescent point)" else s
  | _ => s

def onEv (s : Sim) (line : Nat) (ws : List String) : Sim := maybeDropCallers (onEv1 s line ws)

def parsePending (w : String) : List Nat :=
  if w == "-" then [] else (w.splitOn ",").filterMap (·.toNat?)

def onSettled1 (s : Sim) (line : Nat) (ws : List String) : Sim :=
  let s := { s with calls := s.calls.map (fun c => if c.abandonT.isSome then { c with abandonSettled := true } else c),
                    killSettled := s.killed }
  if s.cleanup || !s.accepting || s.fuzzy then s else
  let s := s.close
  let pending := parsePending ((kvGet ws "pending").getD "-")
  let value := (kvNat ws "value").getD 0
  let active := (kvNat ws "active").getD 0
  let prov := (kvGet ws "prov").getD "?"
  -- nothing observable is enabled in the model
  let s := s.calls.foldl (fun s c =>
    match c.mid with
    | none => s
    | some mid =>
      let s := if (step s.cfg s.st (.recvReply mid)).isSome then
          s.diff line s!"quiescent, but the model has an outcome ready for call {c.tag} ({Sim.showCl ((step s.cfg s.st (.recvReply mid)).map (·.cl mid) |>.getD .waiting)})" else s
      let s := if (step s.cfg s.st (.execStep mid)).isSome && s.segAllowed c mid then
          s.diff line s!"quiescent, but the model can run segment {s.st.pc mid} of call {c.tag}" else s
      if (step s.cfg s.st (.execCancel mid)).isSome then
        s.diff line s!"quiescent, but the model cancels the execution of call {c.tag}" else s) s
  -- same pending calls (among those that were actually made)
  let modelPending := s.calls.filterMap (fun c => match c.mid with
    | some mid => if s.st.cl mid == .waiting then some c.tag else none
    | none => none)
  let realPending := pending.filter (fun t => ((s.getCall t).bind (·.mid)).isSome)
  let s := if modelPending != realPending then s.diff line s!"pending calls: model {modelPending}, real {realPending}" else s
  let s := if (ctr s.st + s.init) % two64 != value then s.diff line s!"counter: model {(ctr s.st + s.init) % two64}, real {value}" else s
  let mActive := ((List.range s.st.n).filter (fun c => s.st.stage c == .executing)).length
  let s := if mActive != active then s.diff line s!"executions in progress: model {mActive}, real {active}" else s
  -- provider task (`RFnOnce`: the task's `keep` receiver is dropped as soon as a request is taken)
  let stopped := s.st.loop.isStopped
  if s.fl != "once" && ((prov == "ended" && !stopped) || (prov == "alive" && stopped)) then
    s.diff line s!"provider task: real {prov}, model loop {repr s.st.loop}"
  else s

/-- `op end`: settle (hang detection), then every handle is dropped, then settle again -/
def onSettled (s : Sim) (line : Nat) (ws : List String) : Sim :=
  let s := onSettled1 s line ws
  if s.ended && !s.endDropped then
    maybeDropCallers { s with endDropped := true, handles := s.handles.map (fun _ => false) }
  else s

def finishCase (s : Sim) : List String :=
  -- the final counter equals the last segment's value (checked at every settled marker in exact mode)
  let accept := if !s.accepting then "skipped" else if s.acceptOk then "ok" else "mismatch"
  let stats := " ".intercalate (s.stats.map (fun p => s!"{p.1}={p.2}"))
  s.out ++ [s!"END {s.name} events={s.events} accept={accept} c12={if s.c12 then "ok" else "FAIL"} c19={if s.c19 then "ok" else "FAIL"} calls={s.calls.length} fuzzy={if s.fuzzy then 1 else 0} {stats}"]

structure DState where
  cur : Option Sim := none
  cancelVariant : Bool := false

def stepLine (d : DState) (lineNo : Nat) (line : String) : IO DState := do
  let ws := words line
  match ws[0]? with
  | some "case" => pure { d with cur := some (startCase ws d.cancelVariant) }
  | some w =>
    match d.cur with
    | none => pure d
    | some s =>
      let s := { s with events := s.events + 1 }
      match w with
      | "op" => pure { d with cur := some (onOp s lineNo ws) }
      | "ev" => pure { d with cur := some (onEv s lineNo ws) }
      | "settled" => pure { d with cur := some (onSettled s lineNo ws) }
      | "cleanup" => pure { d with cur := some { s with cleanup := true } }
      | "panic" =>
        pure { d with cur := some (s.fail "c19" lineNo ("harness-panic " ++ " ".intercalate (ws.drop 1 |>.take 12))) }
      | "endcase" =>
        for l in finishCase s do IO.println l
        pure { d with cur := none }
      | _ => pure d
  | none => pure d

def main (args : List String) : IO Unit := do
  let stdin ← IO.getStdin
  lineLoop stdin ({ cancelVariant := args.contains "fixed" } : DState) 1 stepLine (fun d => do
    match d.cur with
    | some s => for l in finishCase s do IO.println l
    | none => pure ())
