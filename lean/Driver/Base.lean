import RemocModel.Base.Model
import RemocModel.Base.Mpsc
import RemocModel.Base.CloseReplay
import Driver.Util
/-
Driver for the typed-channel harness (`harness/src/bin/base.rs`): C04 and the typed part of C11.

Input: the harness trace (see base.rs).  Per case the driver
 (1) evaluates the property predicates directly on the REAL results
     `c04`: no invented / duplicated / altered value, per-sender order, no gap (a successfully sent,
            receivable item may be missing only as a suffix), completeness when the stream ended
            normally, item errors non-final and at most one per failing item, failing items reported to
            their sender, oneshot at most one value, no hang;
     `c11`: (cases with a close / drop / connection-failure event) everything sent successfully before the
            sender learnt of a close is delivered, later sends fail, classification of the condition
            (`is_closed`, `closed_reason`, `closed()` future, error kinds), dropped-queue suffix for mpsc;
 (2) replays the sends on M_base (`sendItem`, `outcome`) — nondeterministic where the model is (abort
     point of a cancelled send, deserializer race, hand-over count of an over-size streamed item) — and
     compares send results, `Sending` results and the receiver's outputs with the model's (`DIFF`).
Output: `FAIL <case> <pred> …`, `DIFF <case> …`, and one `END <case> …` line per case.
-/
open Driver Remoc.Base

structure SendRec where
  sender : Nat
  tag : Nat
  sizeLo : Nat
  sizeHi : Nat
  need : Nat
  halves : Nat
  serLo : Option Nat
  serHi : Option Nat
  defail : Bool
  cancel : Option Nat
  data : String
  res : String
  kv : List (String × String)

inductive RecvRec where
  | value (tag halves : Nat) (data : String)
  | err (kind : String) (final : Bool)
  | eos

structure CaseSt where
  name : String := ""
  active : Bool := false
  kind : String := ""
  event : String := "none"
  pos : Nat := 0
  cfg : Cfg := { sMaxData := 0, rMaxData := 0, sMaxItem := 0, rMaxItem := 0 }
  links : List (Nat × String) := []
  sends : List SendRec := []
  handles : List (Nat × Nat × String) := []
  recvs : List RecvRec := []
  events : List String := []
  states : List (Nat × List (String × String)) := []
  complete : Option Bool := none
  skipped : Bool := false

structure DAcc where
  cur : CaseSt := {}
  cases : Nat := 0

def kvs (ws : List String) : List (String × String) :=
  ws.filterMap (fun w => match w.splitOn "=" with
    | [k, v] => some (k, v)
    | _ => none)

def getKV (m : List (String × String)) (k : String) : String := ((m.find? (·.1 == k)).map (·.2)).getD ""
def getNat (m : List (String × String)) (k : String) : Nat := (getKV m k).toNat?.getD 0
def getOpt (m : List (String × String)) (k : String) : Option Nat := (getKV m k).toNat?

def linkOf (c : CaseSt) (s : Nat) : String := ((c.links.find? (·.1 == s)).map (·.2)).getD "0"
def isLocal (c : CaseSt) (s : Nat) : Bool := linkOf c s == "local"

def handleOf (c : CaseSt) (s : SendRec) : String :=
  ((c.handles.find? (fun h => h.1 == s.sender && h.2.1 == s.tag)).map (·.2.2)).getD "none"

def queued (c : CaseSt) : Bool := c.kind == "mpsc" || c.kind == "oneshot"

/-- the send succeeded from the sender's point of view -/
def okS (c : CaseSt) (s : SendRec) : Bool :=
  if queued c then s.res == "queued" && handleOf c s == "ok" else s.res == "ok"

def surelyReceivable (c : CaseSt) (s : SendRec) : Bool :=
  isLocal c s.sender || (!s.defail && s.sizeHi ≤ c.cfg.rMaxItem)

def maybeReceivable (c : CaseSt) (s : SendRec) : Bool :=
  isLocal c s.sender || (!s.defail && s.sizeLo ≤ c.cfg.rMaxItem)

def recvTags (c : CaseSt) : List Nat :=
  c.recvs.filterMap (fun r => match r with | .value t _ _ => some t | _ => none)

def sendOfTag (c : CaseSt) (t : Nat) : Option SendRec := c.sends.find? (·.tag == t)

/-! ### model replay -/

def resName : SendRes → String
  | .ok => "ok" | .serErr => "ser" | .oversize => "oversize" | .cancelled => "cancelled" | .closed => "closed"

def errName : ErrKind → String
  | .oversize => "oversize" | .deser => "deser" | .missingPorts => "missingports"

structure Cand where
  big : Int
  outs : List RecvOut
deriving DecidableEq

def dedup (l : List Cand) : List Cand := l.foldl (fun acc x => if acc.contains x then acc else acc ++ [x]) []

/-- all ways the model can produce the observed result of this send from heuristic state `big` -/
def alternatives (c : Cfg) (s : SendRec) (observed : String) (big : Int) : List (Int × List RecvOut) :=
  let sizes : List (Nat × Option Nat) :=
    if s.sizeLo == s.sizeHi then [(s.sizeLo, s.serLo)] else [(s.sizeLo, s.serLo), (s.sizeHi, s.serHi)]
  let derrs : List Bool := [false, true]
  let n0s : List Nat := [0, c.rMaxData + 1, c.rMaxItem + 1].filter (· ≤ c.sMaxItem)
  sizes.flatMap fun (sz, sf) =>
    let it : Item := { id := s.tag, size := sz, need := min s.need sz, halves := s.halves, serFail := sf, deFail := s.defail }
    let aborts : List Abort :=
      if observed == "cancelled" then
        -- a cancelled chunk-streamed send may have put every byte on the port (only `finish` is missing)
        (([0, c.rMaxData + 1, c.rMaxItem + 1].filter (· < sz)) ++ [sz]).map Abort.inData ++ (if s.halves > 0 then [.beforePorts] else [])
      else [.none]
    aborts.flatMap fun ab => derrs.flatMap fun d => n0s.flatMap fun n0 =>
      let x := sendItem c big it ab d n0
      -- streamed item that both exceeds the receiver's size limit and fails to deserialize: which of
      -- the two errors the receiver reports is a race; `missingPorts` serves as the wildcard kind
      let both := s.defail && sz > c.rMaxItem && sz > c.rMaxData
      let outs := (outcome c x.2.1).map fun o => match o with
        | .itemErr _ => if both then RecvOut.itemErr .missingPorts else o
        | o => o
      if resName x.2.2 == observed then [(x.1, outs)] else []

def natural (c : Cfg) (s : SendRec) (big : Int) : String :=
  let it : Item := { id := s.tag, size := s.sizeLo, need := min s.need s.sizeLo, halves := s.halves, serFail := s.serLo, deFail := s.defail }
  resName (sendItem c big it .none false 0).2.2

/-- replay a list of (send, observed result) on the model; `none` = the model cannot produce it -/
def replaySends (c : Cfg) (obs : List (SendRec × String)) : Except String (List Cand) :=
  obs.foldlM (fun (cands : List Cand) (p : SendRec × String) =>
    let next := dedup (cands.flatMap fun cd =>
      (alternatives c p.1 p.2 cd.big).map fun (b, o) => { big := b, outs := cd.outs ++ o })
    if next.isEmpty then
      .error s!"send tag={p.1.tag} size={p.1.sizeLo} halves={p.1.halves} serfail={p.1.serLo} cancel={p.1.cancel}: real result '{p.2}', model predicts '{String.intercalate "/" ((cands.map fun cd => natural c p.1 cd.big).eraseDups)}'"
    else .ok next) [{ big := 0, outs := [] }]

inductive Obs where
  | v (tag : Nat)
  | e (kind : String)
deriving DecidableEq, Repr

def obsOfModel : RecvOut → Obs
  | .value it => .v it.id
  | .itemErr k => .e (errName k)

def showObs (l : List Obs) : String :=
  " ".intercalate (l.map fun o => match o with | .v t => s!"v{t}" | .e k => s!"e:{k}")

/-- real observation `a` against model observation `b` (`e:missingports` = any error kind) -/
def obsMatch (a b : Obs) : Bool :=
  match a, b with
  | .v x, .v y => x == y
  | .e k, .e m => k == m || m == "missingports"
  | _, _ => false

def isPrefixOf : List Obs → List Obs → Bool
  | [], _ => true
  | _ :: _, [] => false
  | a :: as, b :: bs => obsMatch a b && isPrefixOf as bs

def obsEq (a b : List Obs) : Bool := a.length == b.length && isPrefixOf a b

/-! ### evaluation of one case -/

structure Verdict where
  fails04 : List String := []
  fails11 : List String := []
  diffs : List String := []
  replayed : Bool := false

def sendsOf (c : CaseSt) (s : Nat) : List SendRec := c.sends.filter (·.sender == s)

def senderIds (c : CaseSt) : List Nat := (c.sends.map (·.sender)).eraseDups

/-- the failing condition was an item error on this link (mpsc: such an error is sticky, reason = failed) -/
def linkHadItemFailure (c : CaseSt) (link : String) : Bool :=
  c.sends.any fun s => linkOf c s.sender == link &&
    (let h := handleOf c s; h == "ser" || h == "oversize" || s.res == "rs-ser" || s.res == "rs-oversize")

def checkC04 (c : CaseSt) : List String := Id.run do
  let mut fails : List String := []
  let tags := recvTags c
  -- P1 / P2
  for r in c.recvs do
    match r with
    | .value t h d =>
      match sendOfTag c t with
      | none => fails := fails ++ [s!"invented value: tag {t} was never sent"]
      | some s =>
        if !okS c s then
          let h := handleOf c s
          let sendErr := fun (x : String) => x.startsWith "closed" || x == "chmux"
          let wholeStream := !isLocal c s.sender && s.sizeLo > c.cfg.rMaxData &&
            (((s.serLo.getD 0) ≥ s.need && s.serLo.isSome && (s.res == "ser" || h == "ser")) || s.res == "cancelled" || sendErr s.res || sendErr h)
          if wholeStream then
            fails := fails ++ [s!"FB1 value tag {t} was delivered although its send failed (res={s.res} handle={h}): the abandoned chunk stream already carried the complete encoding and the receiver does not check the end of a streamed message"]
          else
            fails := fails ++ [s!"value tag {t} was delivered although its send did not succeed (res={s.res} handle={h})"]
        if s.data != d then fails := fails ++ [s!"value tag {t} altered: sent {s.data} received {d}"]
        if s.halves != h then fails := fails ++ [s!"value tag {t}: {s.halves} halves sent, {h} received"]
    | _ => pure ()
  if tags.eraseDups.length != tags.length then fails := fails ++ ["a value was delivered twice"]
  -- P3 / P4 / P5 per sender
  let ended := c.complete == some true && !c.recvs.any (fun r => match r with | .err _ true => true | _ => false)
  for sid in senderIds c do
    let mine := sendsOf c sid
    let rs := tags.filter (fun t => mine.any (·.tag == t))
    let okl := mine.filter (fun s => okS c s && maybeReceivable c s)
    -- walk
    let mut rest := okl
    for t in rs do
      if !(okl.any (·.tag == t)) then continue   -- reported by P1
      let mut found := false
      while !found do
        match rest with
        | [] => break
        | s :: tl =>
          rest := tl
          if s.tag == t then found := true
          else if surelyReceivable c s then
            fails := fails ++ [s!"gap: sender {sid} item tag {s.tag} was sent successfully and is receivable, but later item tag {t} was delivered without it"]
      if !found then fails := fails ++ [s!"order: sender {sid} item tag {t} delivered out of send order"]
    if ended && (c.event == "none" || c.event == "droptx") then
      for s in rest do
        if surelyReceivable c s then
          fails := fails ++ [s!"lost: sender {sid} item tag {s.tag} was sent successfully but never delivered although the stream ended normally"]
  -- P6 errors
  let errs := c.recvs.filterMap (fun r => match r with | .err k f => some (k, f) | _ => none)
  let connfailed := c.events.contains "connfail"
  for (k, f) in errs do
    if f && !connfailed then fails := fails ++ [s!"final receive error '{k}' without a connection failure"]
  let failing := c.sends.filter (fun s => !isLocal c s.sender && !(okS c s && surelyReceivable c s))
  let nonfinal := errs.filter (fun e => !e.2)
  if nonfinal.length > failing.length then
    fails := fails ++ [s!"{nonfinal.length} item errors reported to the receiver but only {failing.length} failing items"]
  -- eos last
  match c.recvs.reverse with
  | _ :: rest => if rest.any (fun r => match r with | .eos => true | _ => false) then fails := fails ++ ["results after end-of-stream"]
  | [] => pure ()
  -- P7 reported to the sender
  for s in c.sends do
    if !isLocal c s.sender && okS c s then
      if s.serLo.isSome then fails := fails ++ [s!"item tag {s.tag} whose serialization fails was reported as sent"]
      if s.sizeLo > c.cfg.sMaxItem then fails := fails ++ [s!"item tag {s.tag} of {s.sizeLo} bytes exceeds the sender's max_item_size {c.cfg.sMaxItem} but was reported as sent"]
  -- P9 a value queued on a remote link is transmitted unless the channel ends (no neighbour may take it down)
  if c.event == "none" && ended && c.kind == "mpsc" then
    for s in c.sends do
      if !isLocal c s.sender && s.res == "queued" then
        let h := handleOf c s
        if !(h == "ok" || h == "ser" || h == "oversize") then
          fails := fails ++ [s!"queued item tag {s.tag} of sender {s.sender} was not transmitted (Sending handle: {h}) although the channel did not end"]
  -- P8
  if c.kind == "oneshot" && tags.length > 1 then fails := fails ++ ["oneshot delivered more than one value"]
  -- hangs / panics
  for e in c.events do
    if e.startsWith "hang" || e.startsWith "panic" || e.startsWith "recv runaway" || e.endsWith "panicked" then
      if c.event == "none" || e.startsWith "panic" || e.endsWith "panicked" then fails := fails ++ [s!"{e}"]
  if c.event == "none" && c.complete == some false then fails := fails ++ ["the receiver did not reach the end of the stream"]
  return fails

def stateOf (c : CaseSt) (s : Nat) : Option (List (String × String)) := (c.states.find? (·.1 == s)).map (·.2)

def checkC11 (c : CaseSt) : List String := Id.run do
  let mut fails : List String := []
  let ev := c.event
  let fired := c.events.contains (if ev == "close" then "rclose" else if ev == "droprx" then "rdrop" else if ev == "connfail" then "connfail" else "")
  for e in c.events do
    if e.startsWith "hang" || e.startsWith "probe-never-failed" then fails := fails ++ [s!"{ev}: {e}"]
  let tags := recvTags c
  -- everything sent successfully is delivered when the receiver keeps receiving (close, droptx)
  if ev == "close" || ev == "droptx" then
    if c.complete != some true then fails := fails ++ [s!"{ev}: the receiver never saw the end of the stream"]
    else if !c.recvs.any (fun r => match r with | .err _ true => true | _ => false) then
      for s in c.sends do
        if okS c s && surelyReceivable c s && !tags.contains s.tag then
          fails := fails ++ [s!"{ev}: item tag {s.tag} of sender {s.sender} was sent successfully but lost"]
  if ev == "droptx" then
    match c.recvs.reverse with
    | .eos :: _ => pure ()
    | _ => fails := fails ++ ["droptx: all senders dropped but the receiver did not get end-of-stream"]
  -- a connection failure must not look like a clean end with items missing
  if ev == "connfail" && fired then
    match c.recvs.reverse with
    | .eos :: _ =>
      for s in c.sends do
        if okS c s && surelyReceivable c s && !tags.contains s.tag then
          fails := fails ++ [s!"connfail: clean end-of-stream although item tag {s.tag} (sent successfully) is missing"]
    | _ => pure ()
  if (ev == "close" || ev == "droprx" || ev == "connfail") && fired then
    for sid in senderIds c do
      let loc := isLocal c sid
      if ev == "connfail" && loc then continue
      let mine := sendsOf c sid
      -- later sends fail: the probe issued after the sender learnt of the condition
      match mine.find? (fun s => s.tag ≥ 900000) with
      | some p => if p.res == "ok" || p.res == "queued" then fails := fails ++ [s!"{ev}: sender {sid} could still send after it had learnt of the condition"]
      | none => pure ()
      -- once a send failed with a final error, no later send of this sender succeeds
      let mut failed := false
      for s in mine do
        let fin := s.res.startsWith "closed" || s.res == "chmux" || s.res == "rs-chmux" || s.res.startsWith "rs-closed" || s.res == "failed"
        if failed && (s.res == "ok" || s.res == "queued") then fails := fails ++ [s!"{ev}: sender {sid} send tag {s.tag} succeeded after an earlier final error"]
        if fin then failed := true
      -- classification
      let itemFailed := linkHadItemFailure c (linkOf c sid)
      let firstFail := mine.find? (fun s => !(s.res == "ok" || s.res == "queued" || s.res == "ser" || s.res == "oversize" || s.res == "cancelled" || s.res == "rs-ser" || s.res == "rs-oversize"))
      match stateOf c sid with
      | none => pure ()
      | some st =>
        let isclosed := getKV st "isclosed"
        let reason := getKV st "reason"
        let cf := getKV st "closedfut"
        if queued c then
          if !itemFailed then
            let want := if ev == "close" then "closed" else if ev == "droprx" then "dropped" else "failed"
            if reason != want then fails := fails ++ [s!"{ev}: sender {sid} closed_reason() = {reason}, expected {want}"]
          if isclosed != "1" then fails := fails ++ [s!"{ev}: sender {sid} is_closed() = false after the {ev}"]
          if cf == "0" then fails := fails ++ [s!"{ev}: sender {sid} closed() future still pending"]
        else
          if ev != "connfail" then
            if isclosed != "1" then fails := fails ++ [s!"{ev}: is_closed() = {isclosed} after the receiver was {ev}"]
            if cf == "0" then fails := fails ++ [s!"{ev}: closed() future still pending"]
      match firstFail with
      | none => pure ()
      | some s =>
        if queued c then
          if !itemFailed then
            let okc :=
              if ev == "close" then s.res == "closed"
              else if ev == "droprx" then s.res == "rs-closed-dropped" || s.res == "closed" || s.res == "failed"
              else s.res == "rs-chmux" || s.res == "closed" || s.res == "failed" || s.res == "rconnect" || s.res == "rlisten"
            if !okc then fails := fails ++ [s!"{ev}: sender {sid} send error '{s.res}' does not classify the condition"]
        else
          let okc :=
            if ev == "close" then s.res == "closed-graceful"
            else if ev == "droprx" then s.res == "closed-dropped"
            else s.res == "chmux" || s.res == "connect"
          if !okc then fails := fails ++ [s!"{ev}: send error '{s.res}' does not classify the condition"]
  -- mpsc: values accepted locally but not transmitted form a suffix, their handles report Dropped
  if c.kind == "mpsc" then
    for link in (c.links.map (·.2)).eraseDups do
      if link == "local" then continue
      let acc := c.sends.filter (fun s => linkOf c s.sender == link && s.res == "queued")
      let mut dropped := false
      for s in acc do
        let h := handleOf c s
        if dropped && h == "ok" then fails := fails ++ [s!"{ev}: link {link} item tag {s.tag} was transmitted after an earlier queued item was dropped (dropped values must form a suffix)"]
        if h == "dropped" then dropped := true
        if h == "pending" then fails := fails ++ [s!"{ev}: Sending handle of item tag {s.tag} never resolved"]
  return fails

def observedOuts (c : CaseSt) (keep : Nat → Bool) : List Obs :=
  c.recvs.filterMap fun r => match r with
    | .value t _ _ => if keep t then some (.v t) else none
    | .err k false => some (.e k)
    | _ => none

def replayCase (c : CaseSt) : List String × Bool := Id.run do
  if c.event != "none" then return ([], false)
  let ended := c.complete == some true
  if c.kind == "base" || c.kind == "lr" then
    match replaySends c.cfg (c.sends.map fun s => (s, s.res)) with
    | .error m => return ([m], true)
    | .ok cands =>
      let obs := observedOuts c (fun _ => true)
      let ideals := cands.map fun cd => cd.outs.map obsOfModel
      let okc := ideals.any fun i => if ended then obsEq obs i else isPrefixOf obs i
      if okc then return ([], true)
      else return ([s!"receiver outputs differ from the model: real [{showObs obs}] model [{" | ".intercalate ((ideals.take 4).map showObs)}]"], true)
  else if c.kind == "mpsc" then
    let mut diffs : List String := []
    let mut minE := 0
    let mut maxE := 0
    for link in (c.links.map (·.2)).eraseDups do
      if link == "local" then continue
      let acc := c.sends.filter (fun s => linkOf c s.sender == link && s.res == "queued")
      let obsH := acc.map fun s => (s, handleOf c s)
      if obsH.any (fun p => !(p.2 == "ok" || p.2 == "ser" || p.2 == "oversize")) then return (diffs, false)
      match replaySends c.cfg obsH with
      | .error m => diffs := diffs ++ [s!"link {link}: {m}"]
      | .ok cands =>
        let obs := (observedOuts c (fun t => acc.any (·.tag == t))).filter (fun o => match o with | .v _ => true | _ => false)
        let vals := cands.map fun cd => (cd.outs.map obsOfModel).filter (fun o => match o with | .v _ => true | _ => false)
        let okc := vals.any fun i => if ended then obsEq obs i else isPrefixOf obs i
        if !okc then diffs := diffs ++ [s!"link {link}: delivered values differ from the model: real [{showObs obs}] model [{" | ".intercalate ((vals.take 4).map showObs)}]"]
        let ecounts := cands.map fun cd => (errors cd.outs).length
        minE := minE + (ecounts.foldl min (ecounts.headD 0))
        maxE := maxE + (ecounts.foldl max 0)
    let nerr := (c.recvs.filter (fun r => match r with | .err _ false => true | _ => false)).length
    if ended && (nerr < minE || nerr > maxE) then
      diffs := diffs ++ [s!"{nerr} item errors at the receiver, model allows {minE}..{maxE}"]
    return (diffs, true)
  else return ([], false)

/-! ### queued channels (mpsc, oneshot): M_close -/

def hresOf (h : String) : Option Remoc.Close.HRes :=
  if h == "ok" then some .ok else if h == "dropped" then some .dropped
  else if h == "pending" || h == "none" then none else some .sendErr

structure CloseVerdict where
  fails : List String := []
  diffs : List String := []
  links : Nat := 0
  replayed : Nat := 0
  dropped : Nat := 0

/-- index of the first event line satisfying `p` -/
def evIndex (c : CaseSt) (p : String → Bool) : Option Nat := c.events.findIdx? p

/-- Predicates of `Props/C11.lean` (namespace `Remoc.Close`) on the real observations of a queued channel,
and the replay of every link on M_close. -/
def checkClose (c : CaseSt) : CloseVerdict := Id.run do
  let mut v : CloseVerdict := {}
  let ev := Remoc.Close.Ev.ofString c.event
  let once := c.kind == "oneshot"
  let mcfg : Remoc.Close.Cfg := if once then { cap := 1, rcap := 1, oneshot := true } else { cap := 2, rcap := 2 }
  let tags := recvTags c
  let sawEos := c.recvs.any (fun r => match r with | .eos => true | _ => false)
  let finalErr := c.recvs.any (fun r => match r with | .err _ true => true | _ => false)
  let cleanEnd := c.complete == some true && sawEos && !finalErr
  let fired := c.events.contains (if c.event == "close" then "rclose" else if c.event == "droprx" then "rdrop" else if c.event == "connfail" then "connfail" else "")
  let nLocal := (c.links.filter (·.2 == "local")).length
  -- mpsc_eos_after_all_senders: without a close no end-of-stream while a sender is alive
  if sawEos && (c.event == "none" || c.event == "droptx") && !c.events.any (·.endsWith "panicked") then
    match evIndex c (· == "@eos") with
    | some ie =>
      for (sid, lk) in c.links do
        -- a link on which an item failed has closed itself (reason `Failed`, F10): its senders count as gone
        if linkHadItemFailure c lk then continue
        match evIndex c (· == s!"txdrop {sid}") with
        | some it => if it > ie then v := { v with fails := v.fails ++ [s!"{c.event}: end-of-stream was delivered while sender {sid} was still alive (it was dropped later)"] }
        | none => v := { v with fails := v.fails ++ [s!"{c.event}: end-of-stream was delivered but sender {sid} was never dropped"] }
    | none => pure ()
  -- a connection error is held back while other senders are present: a final receive error is delivered only after
  -- every local sender (which no connection failure can touch) has been dropped
  if c.kind == "mpsc" && !c.events.any (·.endsWith "panicked") then
    match evIndex c (· == "@finalerr") with
    | some ie =>
      for (sid, lk) in c.links do
        if lk != "local" then continue
        match evIndex c (· == s!"txdrop {sid}") with
        | some it => if it > ie then v := { v with fails := v.fails ++ [s!"{c.event}: a final receive error was delivered while the local sender {sid} was still alive (it was dropped later)"] }
        | none => v := { v with fails := v.fails ++ [s!"{c.event}: a final receive error was delivered but the local sender {sid} was never dropped"] }
    | none => pure ()
  -- `SendError::closed_reason()` of a refused send is the model's `errReason` of the recorded error
  if !once then
    for s in c.sends do
      match Remoc.Close.rerrOfKind s.res with
      | some e =>
        let want := Remoc.Close.reasonName (Remoc.Close.errReason e)
        if getKV s.kv "reason" != "" && getKV s.kv "reason" != want then
          v := { v with diffs := v.diffs ++ [s!"send tag {s.tag} of sender {s.sender} failed with '{s.res}': its closed_reason() is {getKV s.kv "reason"}, M_close (errReason): {want}"] }
      | none => pure ()
  for link in (c.links.map (·.2)).eraseDups do
    if link == "local" then continue
    v := { v with links := v.links + 1 }
    let sids := (c.links.filter (·.2 == link)).map (·.1)
    let acc := c.sends.filter (fun s => linkOf c s.sender == link && s.res == "queued")
    let hs := acc.map (fun s => (s, handleOf c s))
    -- mpsc_queued_suffix_dropped: every handle resolved, never a gap (per link and per sender clone)
    for (s, h) in hs do
      if (hresOf h).isNone then
        v := { v with fails := v.fails ++ [s!"{c.event}: Sending handle of item tag {s.tag} (sender {s.sender}) never resolved"] }
    let rs := hs.filterMap (fun p => hresOf p.2)
    v := { v with dropped := v.dropped + (rs.filter (· == .dropped)).length }
    if !Remoc.Close.suffixOk rs then
      v := { v with fails := v.fails ++ [s!"{c.event}: link {link}: the Sending handles [{" ".intercalate (rs.map Remoc.Close.hresName)}] show a transmitted or failed value after a dropped one (dropped values must form a suffix)"] }
    -- mpsc_close_keeps_transmitted: delivered = transmitted prefix, everything at a clean end
    let sure := fun (s : SendRec) => surelyReceivable c s
    let xmit := (hs.filter (fun p => p.2 == "ok" && sure p.1)).map (·.1.tag)
    let del := tags.filter (fun t => acc.any (fun s => s.tag == t && sure s))
    let single := ((c.links.map (·.2)).eraseDups.filter (· != "local")).length == 1
    if ev != .connfail && !Remoc.Close.deliveredOk del xmit (cleanEnd && ev != .droprx) then
      v := { v with fails := v.fails ++ [s!"{c.event}: link {link}: delivered values {del} are not {if cleanEnd then "all" else "a prefix"} of the transmitted values {xmit} (Sending handles Ok) although the stream {if cleanEnd then "ended cleanly" else "is still open"}"] }
    -- replay on M_close
    let itemFailed := linkHadItemFailure c link || rs.contains .sendErr
    if itemFailed || rs.length != hs.length || !Remoc.Close.suffixOk rs then continue
    if (ev == .close || ev == .droprx || ev == .connfail) && !fired then continue
    let vals : List Remoc.Close.Val := acc.map fun s => { id := s.tag, sender := s.sender }
    let k := (rs.filter (· == .ok)).length
    v := { v with replayed := v.replayed + 1 }
    match Remoc.Close.replayLink mcfg vals k ev sids.length nLocal with
    | .error (i, l) =>
      v := { v with diffs := v.diffs ++ [s!"link {link}: M_close cannot follow the real run ({vals.length} values accepted, {k} transmitted, event {c.event}): label {repr l} (position {i}) is not enabled"] }
    | .ok out =>
      if out.hres != rs then
        v := { v with diffs := v.diffs ++ [s!"link {link}: Sending handles differ from M_close: real [{" ".intercalate (rs.map Remoc.Close.hresName)}] model [{" ".intercalate (out.hres.map Remoc.Close.hresName)}]"] }
      for sid in sids do
        match stateOf c sid with
        | some st =>
          if getKV st "reason" != Remoc.Close.reasonName out.reason then
            v := { v with diffs := v.diffs ++ [s!"link {link}: sender {sid} closed_reason() = {getKV st "reason"}, M_close: {Remoc.Close.reasonName out.reason} (event {c.event})"] }
          if getKV st "isclosed" != (if out.reason.isSome then "1" else "0") then
            v := { v with diffs := v.diffs ++ [s!"link {link}: sender {sid} is_closed() = {getKV st "isclosed"}, M_close: {out.reason.isSome}"] }
        | none => pure ()
      if single && (ev == .close || ev == .droptx || ev == .none) && c.complete == some true then
        if out.delivered != del && acc.all sure then
          v := { v with diffs := v.diffs ++ [s!"link {link}: delivered values differ from M_close: real {del} model {out.delivered}"] }
        if !once && nLocal == 0 && (out.eos == some true) != cleanEnd then
          v := { v with diffs := v.diffs ++ [s!"link {link}: clean end-of-stream: real {cleanEnd}, M_close {repr out.eos}"] }
  -- local senders read the receiver's watch directly
  if nLocal > 0 && (ev == .close || ev == .droprx) && fired then
    match Remoc.Close.replayLink mcfg [] 0 ev 0 nLocal with
    | .error _ => pure ()
    | .ok out =>
      for (sid, lk) in c.links do
        if lk != "local" then continue
        match stateOf c sid with
        | some st =>
          if getKV st "reason" != Remoc.Close.reasonName out.lreason then
            v := { v with diffs := v.diffs ++ [s!"local sender {sid} closed_reason() = {getKV st "reason"}, M_close: {Remoc.Close.reasonName out.lreason} (event {c.event})"] }
        | none => pure ()
  return v

def finishCase (c : CaseSt) : IO Unit := do
  if !c.active then return
  if c.skipped then
    IO.println s!"END {c.name} kind={c.kind} event={c.event} skipped=1"
    return
  let cv := if queued c then checkClose c else {}
  let f04 := checkC04 c ++ (if c.event == "none" then cv.fails else [])
  let f11 := if c.event == "none" then [] else checkC11 c ++ cv.fails
  let (dP, replayed) := replayCase { c with cfg := { c.cfg with strictEnd := false } }
  let (dF, _) := replayCase { c with cfg := { c.cfg with strictEnd := true } }
  let variant := if !replayed then "na" else if dP.isEmpty && dF.isEmpty then "both" else if dP.isEmpty then "pinned" else if dF.isEmpty then "fixed" else "none"
  let diffs := (if dF.isEmpty then [] else dP) ++ cv.diffs
  for m in f04 do IO.println s!"FAIL {c.name} c04 {m}"
  for m in f11 do IO.println s!"FAIL {c.name} c11 {m}"
  for m in diffs do IO.println s!"DIFF {c.name} {m}"
  let nFail := (c.sends.filter fun s => !okS c s).length
  let nStream := (c.sends.filter fun s => s.sizeLo > c.cfg.sMaxData).length
  let nCancel := (c.sends.filter fun s => s.res == "cancelled").length
  let nHalves := (c.sends.filter fun s => s.halves > 0).length
  let nErr := (c.recvs.filter fun r => match r with | .err .. => true | _ => false).length
  let nVal := (recvTags c).length
  -- a failing / cancelled item that is followed by a delivered item of the same sender
  let after := c.sends.any fun s => !okS c s && !isLocal c s.sender &&
    (c.sends.any fun s2 => s2.sender == s.sender && s2.tag > s.tag && (recvTags c).contains s2.tag)
  -- observation F-TC-1: a send refused with `SendError::Closed` (reason Closed) although the receiver was dropped / the
  -- connection failed and never closed (waiting sends, local clones); counted, not a failure
  let nGone := if queued c && (c.event == "droprx" || c.event == "connfail") then
      (c.sends.filter fun s => s.res == "closed" && getKV s.kv "reason" == "closed").length else 0
  IO.println s!"END {c.name} kind={c.kind} event={c.event} c04={if f04.isEmpty then "ok" else "fail"} c11={if c.event == "none" then "na" else if f11.isEmpty then "ok" else "fail"} replay={if !cv.diffs.isEmpty then "diff" else if !replayed && cv.replayed == 0 then "skip" else if diffs.isEmpty then "ok" else "diff"} variant={variant} sends={c.sends.length} values={nVal} failed={nFail} streamed={nStream} cancelled={nCancel} halves={nHalves} recverrs={nErr} failthendeliver={if after then 1 else 0} senders={(senderIds c).length} closelinks={cv.links} closereplayed={cv.replayed} closediff={cv.diffs.length} droppedhandles={cv.dropped} closedaftergone={nGone}"

def parseOptNat (s : String) : Option Nat := if s == "-" then none else s.toNat?

def stepLine (a : DAcc) (_n : Nat) (line : String) : IO DAcc := do
  let l := line.trimAscii.toString
  if l.isEmpty || l.startsWith "spec " || l.startsWith "#" then return a
  let ws := words l
  let c := a.cur
  match ws with
  | "case" :: name :: rest =>
    finishCase c
    let m := kvs rest
    let cfg : Cfg := { sMaxData := getNat m "smaxdata", rMaxData := getNat m "rmaxdata", sMaxItem := getNat m "smax", rMaxItem := getNat m "rmax" }
    return { cur := { name := name, active := true, kind := getKV m "kind", event := if getKV m "event" == "" then "none" else getKV m "event",
                      pos := getNat m "at", cfg := cfg, skipped := (getKV m "skipped") != "" }, cases := a.cases + 1 }
  | ["sender", i, lk] =>
    return { a with cur := { c with links := c.links ++ [(i.toNat?.getD 0, (lk.splitOn "=").getLastD "0")] } }
  | "send" :: i :: rest =>
    let m := kvs rest
    let s : SendRec := { sender := i.toNat?.getD 0, tag := getNat m "tag", sizeLo := getNat m "size", sizeHi := getNat m "sizehi",
                         need := if getKV m "need" == "" then getNat m "size" else getNat m "need",
                         halves := getNat m "halves", serLo := parseOptNat (getKV m "serfail"), serHi := parseOptNat (getKV m "serfailhi"),
                         defail := getKV m "defail" == "1", cancel := parseOptNat (getKV m "cancel"), data := getKV m "data",
                         res := getKV m "res", kv := m }
    return { a with cur := { c with sends := c.sends ++ [s] } }
  | "handle" :: i :: rest =>
    let m := kvs rest
    return { a with cur := { c with handles := c.handles ++ [(i.toNat?.getD 0, getNat m "tag", getKV m "res")] } }
  | "recv" :: "value" :: rest =>
    let m := kvs rest
    return { a with cur := { c with recvs := c.recvs ++ [.value (getNat m "tag") (getNat m "halves") (getKV m "data")] } }
  | "recv" :: "err" :: rest =>
    let m := kvs rest
    let fin := getKV m "final" == "1"
    return { a with cur := { c with recvs := c.recvs ++ [.err (getKV m "kind") fin],
                                    events := if fin then c.events ++ ["@finalerr"] else c.events } }
  | ["recv", "eos"] => return { a with cur := { c with recvs := c.recvs ++ [.eos], events := c.events ++ ["@eos"] } }
  | "state" :: i :: rest =>
    return { a with cur := { c with states := c.states ++ [(i.toNat?.getD 0, kvs rest)] } }
  | "done" :: rest =>
    return { a with cur := { c with complete := some (getKV (kvs rest) "complete" == "1") } }
  | "end" :: _ =>
    finishCase c
    return { a with cur := {} }
  | _ => return { a with cur := { c with events := c.events ++ [l] } }

def main : IO Unit := do
  let stdin ← IO.getStdin
  lineLoop stdin ({} : DAcc) 1 stepLine (fun a => do
    finishCase a.cur
    IO.println s!"DONE cases={a.cases}")
